//! NONEXH witness (C05/C08): an external crate cannot build a segmented array or an operation batch
//! by struct literal (bypassing the checked constructors), because the types are `#[non_exhaustive]`.
//! Each compile_fail example has a compiling twin that differs only by using the checked constructor.

/// A literal `IndexedCoproduct { .. }` must not type-check outside the crate (E0639).
/// ```compile_fail,E0639
/// use open_hypergraphs::array::vec::*;
/// use open_hypergraphs::finite_function::FiniteFunction;
/// use open_hypergraphs::indexed_coproduct::IndexedCoproduct;
/// let sources = FiniteFunction::<VecKind>::new(VecArray(vec![1usize]), 2).unwrap();
/// let values = FiniteFunction::<VecKind>::new(VecArray(vec![0usize]), 1).unwrap();
/// let _bad = IndexedCoproduct::<VecKind, FiniteFunction<VecKind>> { sources, values };
/// ```
///
/// The compiling twin: the checked constructor (compiled, not run).
/// ```no_run
/// use open_hypergraphs::array::vec::*;
/// use open_hypergraphs::finite_function::FiniteFunction;
/// use open_hypergraphs::indexed_coproduct::IndexedCoproduct;
/// let sources = FiniteFunction::<VecKind>::new(VecArray(vec![1usize]), 2).unwrap();
/// let values = FiniteFunction::<VecKind>::new(VecArray(vec![0usize]), 1).unwrap();
/// let _ok = IndexedCoproduct::<VecKind, FiniteFunction<VecKind>>::new(sources, values).unwrap();
/// ```
pub struct IndexedCoproductLiteral;

/// A literal `Operations { .. }` must not type-check outside the crate (E0639).
/// ```compile_fail,E0639
/// use open_hypergraphs::array::vec::*;
/// use open_hypergraphs::indexed_coproduct::IndexedCoproduct;
/// use open_hypergraphs::operations::Operations;
/// use open_hypergraphs::semifinite::SemifiniteFunction;
/// let x = SemifiniteFunction::<VecKind, u8>(VecArray(vec![7u8]));
/// let a = IndexedCoproduct::singleton(SemifiniteFunction::<VecKind, u8>(VecArray(vec![1u8])));
/// let b = IndexedCoproduct::singleton(SemifiniteFunction::<VecKind, u8>(VecArray(vec![2u8])));
/// let _bad = Operations::<VecKind, u8, u8> { x, a, b };
/// ```
///
/// The compiling twin: the checked constructor (compiled, not run).
/// ```no_run
/// use open_hypergraphs::array::vec::*;
/// use open_hypergraphs::indexed_coproduct::IndexedCoproduct;
/// use open_hypergraphs::operations::Operations;
/// use open_hypergraphs::semifinite::SemifiniteFunction;
/// let x = SemifiniteFunction::<VecKind, u8>(VecArray(vec![7u8]));
/// let a = IndexedCoproduct::singleton(SemifiniteFunction::<VecKind, u8>(VecArray(vec![1u8])));
/// let b = IndexedCoproduct::singleton(SemifiniteFunction::<VecKind, u8>(VecArray(vec![2u8])));
/// let _ok = Operations::<VecKind, u8, u8>::new(x, a, b).unwrap();
/// ```
pub struct OperationsLiteral;
