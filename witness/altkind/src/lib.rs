//! GENERIC witness (C20): a second, foreign `ArrayKind` whose index element type is NOT `usize`
//! and whose every primitive is `unimplemented!()`.  The strict-module algorithms named by the
//! property are instantiated at it; the witness is that this crate *type-checks* — nothing is run.
//! If an algorithm stops being generic in `K` (moves to `impl ... <VecKind, ..>`, names `usize`
//! or `VecArray` in its signature), this crate no longer compiles.
#![allow(dead_code, unused_variables, unreachable_code, clippy::all)]

use core::ops::{Add, RangeBounds, Sub};
use num_traits::{One, Zero};
use open_hypergraphs::array::*;
use open_hypergraphs::category::*;
use open_hypergraphs::finite_function::FiniteFunction;
use open_hypergraphs::indexed_coproduct::IndexedCoproduct;
use open_hypergraphs::operations::Operations;
use open_hypergraphs::semifinite::SemifiniteFunction;
use open_hypergraphs::strict::eval::eval;
use open_hypergraphs::strict::functor::optic::Optic;
use open_hypergraphs::strict::functor::identity::Identity;
use open_hypergraphs::strict::functor::Functor;
use open_hypergraphs::strict::hypergraph::arrow::HypergraphArrow;
use open_hypergraphs::strict::hypergraph::Hypergraph;
use open_hypergraphs::strict::layer::{layer, layered_operations};
use open_hypergraphs::strict::open_hypergraph::OpenHypergraph;

#[derive(Clone, Copy, Debug, PartialEq, Eq, PartialOrd, Ord)]
pub struct Ix(pub u32);

impl Add for Ix {
    type Output = Ix;
    fn add(self, _: Ix) -> Ix {
        unimplemented!()
    }
}
impl Sub for Ix {
    type Output = Ix;
    fn sub(self, _: Ix) -> Ix {
        unimplemented!()
    }
}
impl core::ops::Mul for Ix {
    type Output = Ix;
    fn mul(self, _: Ix) -> Ix {
        unimplemented!()
    }
}
impl Zero for Ix {
    fn zero() -> Self {
        unimplemented!()
    }
    fn is_zero(&self) -> bool {
        unimplemented!()
    }
}
impl One for Ix {
    fn one() -> Self {
        unimplemented!()
    }
}
impl From<usize> for Ix {
    fn from(_: usize) -> Self {
        unimplemented!()
    }
}
impl From<Ix> for usize {
    fn from(_: Ix) -> usize {
        unimplemented!()
    }
}

#[derive(Clone, Debug, PartialEq)]
pub struct AltArr<T>(pub std::marker::PhantomData<T>);

#[derive(Debug)]
pub struct AltKind;

impl ArrayKind for AltKind {
    type Type<T> = AltArr<T>;
    type I = Ix;
    type Index = AltArr<Ix>;
    type Slice<'a, T: 'a> = &'a AltArr<T>;
}

impl<'a> Add<&'a AltArr<Ix>> for Ix {
    type Output = AltArr<Ix>;
    fn add(self, _: &'a AltArr<Ix>) -> AltArr<Ix> {
        unimplemented!()
    }
}
impl AsRef<AltArr<Ix>> for AltArr<Ix> {
    fn as_ref(&self) -> &AltArr<Ix> {
        self
    }
}
impl AsMut<AltArr<Ix>> for AltArr<Ix> {
    fn as_mut(&mut self) -> &mut AltArr<Ix> {
        self
    }
}
impl Add for AltArr<Ix> {
    type Output = AltArr<Ix>;
    fn add(self, _: Self) -> Self {
        unimplemented!()
    }
}
impl Sub for AltArr<Ix> {
    type Output = AltArr<Ix>;
    fn sub(self, _: Self) -> Self {
        unimplemented!()
    }
}

impl<T: Clone> Array<AltKind, T> for AltArr<T> {
    fn empty() -> Self {
        unimplemented!()
    }
    fn len(&self) -> Ix {
        unimplemented!()
    }
    fn from_slice(_: &AltArr<T>) -> Self {
        unimplemented!()
    }
    fn concatenate(&self, _: &Self) -> Self {
        unimplemented!()
    }
    fn fill(_: T, _: Ix) -> Self {
        unimplemented!()
    }
    fn get(&self, _: Ix) -> T {
        unimplemented!()
    }
    fn get_range<R: RangeBounds<Ix>>(&self, _: R) -> &AltArr<T> {
        unimplemented!()
    }
    fn set_range<R: RangeBounds<Ix>>(&mut self, _: R, _: &AltArr<T>) {
        unimplemented!()
    }
    fn gather(&self, _: &AltArr<Ix>) -> Self {
        unimplemented!()
    }
    fn scatter(&self, _: &AltArr<Ix>, _: Ix) -> Self {
        unimplemented!()
    }
    fn scatter_assign(&mut self, _: &AltArr<Ix>, _: Self) {
        unimplemented!()
    }
    fn scatter_assign_constant(&mut self, _: &AltArr<Ix>, _: T) {
        unimplemented!()
    }
}

impl OrdArray<AltKind, Ix> for AltArr<Ix> {
    fn argsort(&self) -> AltArr<Ix> {
        unimplemented!()
    }
}

impl NaturalArray<AltKind> for AltArr<Ix> {
    fn max(&self) -> Option<Ix> {
        unimplemented!()
    }
    fn cumulative_sum(&self) -> Self {
        unimplemented!()
    }
    fn arange(_: &Ix, _: &Ix) -> Self {
        unimplemented!()
    }
    fn repeat(&self, _: &AltArr<Ix>) -> Self {
        unimplemented!()
    }
    fn quot_rem(&self, _: Ix) -> (Self, Self) {
        unimplemented!()
    }
    fn mul_constant_add(&self, _: Ix, _: &Self) -> Self {
        unimplemented!()
    }
    fn connected_components(_: &Self, _: &Self, _: Ix) -> (Self, Ix) {
        unimplemented!()
    }
    fn bincount(&self, _: Ix) -> AltArr<Ix> {
        unimplemented!()
    }
    fn sparse_bincount(&self) -> (AltArr<Ix>, AltArr<Ix>) {
        unimplemented!()
    }
    fn zero(&self) -> AltArr<Ix> {
        unimplemented!()
    }
    fn scatter_sub_assign(&mut self, _: &AltArr<Ix>, _: &AltArr<Ix>) {
        unimplemented!()
    }
}

type Obj = u8;
type Arr = i16;
type OH = OpenHypergraph<AltKind, Obj, Arr>;
type FF = FiniteFunction<AltKind>;
type SF<T> = SemifiniteFunction<AltKind, T>;

/// Every algorithm named by C20, instantiated at the foreign backend (type-check only).
pub fn witness(f: &OH, g: &OH, ff: &FF, w: SF<Obj>, ops: Operations<AltKind, Obj, Arr>) {
    // composition, tensor, identities, symmetry, dagger, spiders
    let _: Option<OH> = f.compose(g);
    let _: Option<OH> = f >> g;
    let _: OH = f.tensor(g);
    let _: OH = f | g;
    let _: OH = OH::identity(w.clone());
    let _: OH = <OH as SymmetricMonoidal>::twist(w.clone(), w.clone());
    let _: OH = f.dagger();
    let _: Option<OH> = OH::spider(ff.clone(), ff.clone(), w.clone());
    let _: Option<OH> = <OH as Spider<AltKind>>::half_spider(ff.clone(), w.clone());
    let _: OH = OH::tensor_operations(ops.clone());
    let _ = OH::new(ff.clone(), ff.clone(), f.h.clone());
    let _: SF<Obj> = f.source();
    // finite functions and segmented arrays
    let _: Option<FF> = ff.compose(ff);
    let _: Option<FF> = ff.coequalizer(ff);
    let _: Option<FF> = ff.coequalizer_universal(ff);
    let _: Option<FF> = ff.injections(ff);
    let _: FF = FF::transpose(Ix(2), Ix(3));
    let _: bool = ff.is_injective();
    let ic: IndexedCoproduct<AltKind, FF> = IndexedCoproduct::elements(ff.clone());
    let _ = ic.flatmap(&ic);
    let _ = ic.map_indexes(ff);
    let _ = ic.tensor(&ic);
    // structural predicates
    let _: bool = f.is_acyclic();
    let _: bool = f.is_monogamous();
    let _: Ix = f.h.in_degree(Ix(0));
    let _: Ix = f.h.out_degree(Ix(0));
    // morphisms
    let arrow = HypergraphArrow::new(f.h.clone(), g.h.clone(), ff.clone(), ff.clone());
    if let Ok(a) = arrow {
        let _: bool = a.is_monomorphism();
        let _: bool = a.is_convex_subgraph();
    }
    // layering and evaluation
    let (_order, _flags) = layer(f);
    let (_layers, _unvisited) = layered_operations(f);
    let _: Option<AltArr<i64>> = eval::<AltKind, Obj, Arr, i64>(f, AltArr(std::marker::PhantomData), |_, x| x);
    // functors and optics
    let _: OH = <Identity as Functor<AltKind, Obj, Arr, Obj, Arr>>::map_arrow(&Identity, f);
    let optic: Optic<Identity, Identity, AltKind, Obj, Arr, Obj, Arr> =
        Optic::new(Identity, Identity, Box::new(|_| unimplemented!()));
    let _: OH = optic.map_arrow(f);
    let _: OH = optic.adapt(f, &w, &w);
    let _: Hypergraph<AltKind, Obj, Arr> = f.h.coproduct(&g.h);
}
