#!/bin/bash
# usage: export_facts.sh <repo_dir> <out_dir> <cfg: default|serde>
# Exports the type-checked program of <repo_dir> (current working tree) as JSON facts.
set -euo pipefail
REPO="$1"; OUT="$2"; CFG="${3:-default}"
HERE="$(cd "$(dirname "$0")/.." && pwd)"
DRV="$HERE/ohx/target/release/ohx"
[ -x "$DRV" ] || { echo "ANALYSIS-ERROR: driver not built ($DRV); run setup" >&2; exit 2; }
mkdir -p "$OUT"
TD="$(mktemp -d /tmp/ohx-target.XXXXXX)"
trap 'rm -rf "$TD"' EXIT
FEAT=()
[ "$CFG" = "serde" ] && FEAT=(--features serde)
SYSROOT="$(rustc +nightly --print sysroot)"
rm -f "$OUT/open_hypergraphs.$CFG.json"
( cd "$REPO" && \
  CARGO_NET_OFFLINE=true \
  LD_LIBRARY_PATH="$SYSROOT/lib${LD_LIBRARY_PATH:+:$LD_LIBRARY_PATH}" \
  RUSTFLAGS="-Zmir-opt-level=0 -Awarnings" \
  RUSTC_WORKSPACE_WRAPPER="$DRV" \
  OHX_OUT="$OUT" OHX_CFG="$CFG" OHX_CRATE=open_hypergraphs \
  CARGO_TARGET_DIR="$TD" \
  cargo +nightly check --offline --lib "${FEAT[@]}" 2>"$OUT/cargo.$CFG.log" ) || {
    echo "ANALYSIS-ERROR: cargo check failed (see $OUT/cargo.$CFG.log)" >&2
    tail -20 "$OUT/cargo.$CFG.log" >&2
    exit 2
}
[ -s "$OUT/open_hypergraphs.$CFG.json" ] || { echo "ANALYSIS-ERROR: fact file missing" >&2; exit 2; }
