"""Loops: Houdini-style invariant inference over the places a loop modifies.

Candidates are facts about each modified place that hold at loop entry, drawn from fixed
templates (unchanged; same length; each known upper bound; sum(X) = len(Y) pairs).  The body is
interpreted from an abstract head state assuming the candidates; candidates not re-established
at a back edge are dropped and the process repeats until stable.  Obligations are recorded only
in the final (stable) pass."""
from poly import Poly, as_poly, show_poly
from values import *
from ir import walk


LOOP_DEPS = {}      # (function, loop) -> leaves the loop may depend on (per entry point)


def modified_roots(I, body_nodes, fr):
    """Local ids (within frame) that the loop body may write."""
    roots = set()

    def root_of(e):
        k = e["k"]
        if k == "path" and e["res"]["k"] == "local":
            return e["res"]["id"]
        if k in ("field",):
            return root_of(e["e"])
        if k in ("index",):
            return root_of(e["args"][0])
        if k == "unary" and e["op"] == "*":
            return root_of(e["args"][0])
        if k == "call" and e.get("args"):
            # as_mut()/deref_mut()/index_mut() style place-preserving calls
            return root_of(e["args"][0])
        if k == "ref":
            return root_of(e["e"])
        return None

    def visit(e):
        k = e["k"]
        if k in ("assign", "assign_op"):
            r = root_of(e["args"][0])
            if r is not None:
                roots.add(r)
        if "borrow_mut" in (e.get("adj") or []):
            r = root_of(e)
            if r is not None:
                roots.add(r)
        if k == "ref" and e.get("mut"):
            r = root_of(e["e"])
            if r is not None:
                roots.add(r)
        # shared handles (Rc<RefCell<..>>): anything reachable through them may be mutated by callees
        if k == "path" and e["res"]["k"] == "local" and I.contains_handle(e["ty"]):
            roots.add(("handles-in", e["res"]["id"]))
        if k == "field" and I.is_handle_type(e["ty"]):
            r = root_of(e)
            if r is not None:
                roots.add(("handle-of", r, field_path(e)))
    for n in body_nodes:
        walk(n, visit)
    return roots


def field_path(e):
    out = []
    while e["k"] == "field":
        out.append(e["name"])
        e = e["e"]
    return tuple(reversed(out))


_LOCAL_NAMES = {}


def local_names(fn):
    """local id -> source name of the binding (for stable, readable loop-variable names)."""
    key = fn["path"]
    if key in _LOCAL_NAMES:
        return _LOCAL_NAMES[key]
    out = {}

    def pats(p):
        if not isinstance(p, dict):
            return
        if p.get("k") == "bind":
            out[p["id"]] = p["name"]
        for v in p.values():
            if isinstance(v, dict):
                pats(v)
            elif isinstance(v, list):
                for x in v:
                    pats(x)

    def visit(e):
        if isinstance(e, dict):
            for k, v in e.items():
                if k in ("pat", "params"):
                    if isinstance(v, list):
                        for x in v:
                            pats(x)
                    else:
                        pats(v)
                elif isinstance(v, (dict, list)):
                    visit(v)
        elif isinstance(e, list):
            for x in e:
                visit(x)
    for p in fn["params"]:
        pats(p["pat"])
    visit(fn["body"])
    _LOCAL_NAMES[key] = out
    return out


def heap_places(I, st, v, depth=0):
    """Places of heap cells reachable from a value through handles."""
    out = set()
    if depth > 6:
        return out
    if isinstance(v, VMutRef):
        if isinstance(v.place[0], tuple) and v.place[0] and v.place[0][0] == "heap":
            out.add(v.place)
        else:
            try:
                out |= heap_places(I, st, I.read_place(st, v.place), depth + 1)
            except Exception:
                pass
    elif isinstance(v, VRec):
        for x in v.f.values():
            out |= heap_places(I, st, x, depth + 1)
    elif isinstance(v, VTup):
        for x in v.items:
            out |= heap_places(I, st, x, depth + 1)
    elif isinstance(v, VSeq):
        def walk_t(t):
            if isinstance(t, tuple):
                if len(t) == 2 and t[0] == "mref" and isinstance(t[1], tuple):
                    pl = t[1]
                    if isinstance(pl[0], tuple) and pl[0] and pl[0][0] == "heap":
                        out.add(pl)
                    return
                for y in t:
                    walk_t(y)
        walk_t(v.t)
        import lax_model
        kind = lax_model.LIST_ELEM.get(v.t)
        if isinstance(kind, tuple) and kind[0] == "struct" and I.contains_handle(kind[1]):
            if ("heap", "builder") in st.env:
                out.add((("heap", "builder"), ()))
    return out


def resolve_roots(I, st, fr, roots, skip=lambda r: False, extra_values=()):
    """root -> (place, current value); handles are followed to the heap cell they refer to."""
    entry = {}
    seen_places = set()
    for xv in extra_values:
        for place in sorted(heap_places(I, st, xv), key=repr):
            v = I.read_place(st, place)
            while isinstance(v, VMutRef):
                place = v.place
                v = I.read_place(st, place)
            if place not in seen_places:
                seen_places.add(place)
                entry[("heap",) + place[0][1:]] = (place, v)
    for r in sorted(roots, key=repr):
        if skip(r):
            continue
        if isinstance(r, tuple) and r and r[0] == "handles-in":
            key = (fr.id, r[1])
            if key not in st.env:
                continue
            for place in sorted(heap_places(I, st, st.env[key]), key=repr):
                v = I.read_place(st, place)
                while isinstance(v, VMutRef):
                    place = v.place
                    v = I.read_place(st, place)
                if place not in seen_places:
                    seen_places.add(place)
                    entry[("heap",) + place[0][1:]] = (place, v)
            continue
        if isinstance(r, tuple) and r and r[0] == "handle-of":
            key = (fr.id, r[1])
            if key not in st.env:
                continue
            try:
                v = I.read_place(st, (key, r[2]))
            except Exception:
                continue
            place = (key, r[2])
        else:
            key = (fr.id, r)
            if key not in st.env:
                continue
            v = st.env[key]
            place = (key, ())
        while isinstance(v, VMutRef):
            place = v.place
            v = I.read_place(st, place)
        if place in seen_places:
            continue
        seen_places.add(place)
        entry[r] = (place, v)
    return entry


def fresh_like(I, st0, v, name, cands, path=()):
    """A fresh value with the shape of v; registers candidate invariants in cands."""
    nm = (name,) + path
    if isinstance(v, VNat):
        a = Poly.atom(("loopvar",) + nm)
        cands.append(("nat_same", a, v.p))
        cands.append(("nat_ge", a, v.p))
        return VNat(a)
    if isinstance(v, VSeq):
        lf = leaf(("loopvar",) + nm)
        import lax_model
        if lax_model.is_flags(v.t):
            lax_model.FLAG_LEAVES.add(lf)
        cands.append(("seq_same", lf, v.t))
        cands.append(("seq_len", lf, t_len(v.t)))
        for b in ubs(st0, v.t):
            cands.append(("seq_bound", lf, b))
        return VSeq(lf)
    if isinstance(v, VRec):
        import inv, lax_model
        r = VRec(v.ty, {k: fresh_like(I, st0, x, name, cands, path + (k,)) for k, x in v.f.items()})
        if v.ty == inv.LH:
            if isinstance(r.f["adjacency"], VSeq):
                lax_model.LIST_ELEM[r.f["adjacency"].t] = "hyperedge"
            lax_model.LABEL_LEAVES.add(r.f["nodes"].t)
            lax_model.LABEL_LEAVES.add(r.f["edges"].t)
        if v.ty in (inv.LH, inv.LOH):
            cands.append(("rec_inv", r, path, name))
        return r
    if isinstance(v, VTup):
        return VTup([fresh_like(I, st0, x, name, cands, path + (str(i),)) for i, x in enumerate(v.items)])
    if isinstance(v, VBool):
        return VBool(("unk", ("loopvar",) + nm))
    if isinstance(v, (VUser, VClosure, VFn, VUnit)):
        return v
    return VTop("loop-havoc " + str(nm))


def rebuild(template, cur_of):
    """The current value of a record whose fresh template is given (leaves looked up by cur_of)."""
    if isinstance(template, VSeq):
        return cur_of(template.t)
    if isinstance(template, VNat):
        return cur_of(template.p)
    if isinstance(template, VRec):
        d = {}
        for k, x in template.f.items():
            y = rebuild(x, cur_of)
            if y is None:
                return None
            d[k] = y
        return VRec(template.ty, d)
    if isinstance(template, VTup):
        items = []
        for x in template.items:
            y = rebuild(x, cur_of)
            if y is None:
                return None
            items.append(y)
        return VTup(items)
    return template


def collect_leaves(v, path=()):
    out = []
    if isinstance(v, (VNat, VSeq)):
        out.append((path, v))
    elif isinstance(v, VRec):
        for k, x in v.f.items():
            out += collect_leaves(x, path + (k,))
    elif isinstance(v, VTup):
        for i, x in enumerate(v.items):
            out += collect_leaves(x, path + (str(i),))
    return out


def get_path(v, path):
    for p in path:
        if isinstance(v, VRec):
            v = v.f[p]
        elif isinstance(v, VTup):
            v = v.items[int(p)]
        else:
            return None
    return v


def assume_cands(st, cands, subst_same):
    for c in cands:
        k = c[0]
        if k == "nat_same":
            st.add_eq(c[1] - c[2])
        elif k == "nat_ge":
            st.add_ge(c[1] - c[2])
        elif k == "seq_len":
            st.add_eq(t_len(c[1]) - c[2])
        elif k == "seq_bound":
            st.add_bound(c[1], c[2])
        elif k == "seq_same":
            st.teq = st.teq + ((c[1], c[2]),)
            st.add_eq(t_len(c[1]) - t_len(c[2]))
            for b in ubs(st, c[2]):
                st.add_bound(c[1], b)
        elif k == "sum_len":
            st.add_eq(t_sum(c[1]) - t_len(c[2]))
        elif k == "len_eq":
            st.add_eq(t_len(c[1]) - t_len(c[2]))
        elif k == "bound_len":
            st.add_bound(c[1], t_len(c[2]))
        elif k == "rec_inv":
            import inv
            inv.assume_inv(None, st, c[1])
        elif k == "elbound":
            import lax_model
            lax_model.LIST_ELEM[c[1]] = "hyperedge"
            st.add_bound(("el", c[1], c[2]), c[3])
        elif k == "count_flags":
            n = Poly.atom(("ntrue", c[2]))
            st.add_eq(c[1] - n * c[3] - c[4])
            st.add_ge(t_len(c[2]) - n)


def check_cand(st, c, cur_of):
    """Is candidate c re-established in end-of-body state st? cur_of: leaf/atom -> current value."""
    k = c[0]
    if k == "rec_inv":
        import inv
        # locate the current record through one of its sequence leaves
        lv = collect_leaves(c[1])
        if not lv:
            return False
        cur_fields = {}
        ok_all = True
        curv = rebuild(c[1], cur_of)
        if curv is None:
            return False
        for cc in inv.conditions(curv):
            if cc[0] == "bound":
                ok = prove_bound(st, cc[1], cc[2])
            elif cc[0] == "eq":
                ok = st.eq(cc[1], cc[2])
            elif cc[0] == "elbound":
                ok = inv.elems_bounded(st, cc[1], cc[2], cc[3])
            else:
                ok = st.ge(cc[1], cc[2])
            if not ok:
                return False
        return True
    if k == "count_flags":
        vc, vf = cur_of(c[1]), cur_of(c[2])
        if not isinstance(vc, VNat) or not isinstance(vf, VSeq):
            return False
        n = flag_count(st, vf.t)
        return n is not None and st.eq(vc.p - n * c[3], c[4])
    v = cur_of(c[1])
    if v is None:
        return False
    if k == "nat_same":
        return isinstance(v, VNat) and st.eq(v.p, c[2])
    if k == "nat_ge":
        return isinstance(v, VNat) and st.ge(v.p, c[2])
    if k == "seq_len":
        return isinstance(v, VSeq) and st.eq(t_len(v.t), c[2])
    if k == "seq_bound":
        return isinstance(v, VSeq) and prove_bound(st, v.t, c[2])
    if k == "seq_same":
        return isinstance(v, VSeq) and terms_equal(st, v.t, c[2])
    if k == "sum_len":
        w = cur_of(c[2])
        return isinstance(v, VSeq) and isinstance(w, VSeq) and st.eq(t_sum(v.t), t_len(w.t))
    if k == "len_eq":
        w = cur_of(c[2])
        return isinstance(v, VSeq) and isinstance(w, VSeq) and st.eq(t_len(v.t), t_len(w.t))
    if k == "bound_len":
        w = cur_of(c[2])
        return isinstance(v, VSeq) and isinstance(w, VSeq) and prove_bound(st, v.t, t_len(w.t))
    if k == "elbound":
        import inv
        return isinstance(v, VSeq) and inv.elems_bounded(st, v.t, c[2], c[3])
    return False


def run_loop(I, st, fr, site, roots, run_body, what, extra_values=()):
    """Generic Houdini driver.
    run_body(head_state) -> list of (state, value, ctl) outcomes of one iteration (ctl None/continue =
    back edge, 'break' = exit, 'ret' propagates).
    Returns (exit_states, other_outcomes)."""
    fr.loop_ix += 1
    lname = (fr.fn["path"] if fr.fn else "?", "loop%d" % fr.loop_ix)
    # snapshot of entry values of modified roots
    entry = resolve_roots(I, st, fr, roots, extra_values=extra_values)
    cands = []
    fresh = {}
    names = local_names(fr.fn) if fr.fn else {}
    for r, (place, v) in entry.items():
        fresh[r] = fresh_like(I, st, v, lname + (str(names.get(r, r)),), cands)
    # pair template: sum(X) = len(Y) for modified nat arrays X and arrays Y with equal facts at entry
    seqs = []
    for r, (place, v) in entry.items():
        for path, leafv in collect_leaves(v):
            if isinstance(leafv, VSeq):
                fv = get_path(fresh[r], path)
                seqs.append((fv.t, leafv.t))
    for (fx, ox) in seqs:
        for (fy, oy) in seqs:
            if fx is not fy and st.eq(t_sum(ox), t_len(oy)) and ox[0] in ("empty", "v", "concat") :
                cands.append(("sum_len", fx, fy))
            if fx is not fy and repr(fx) < repr(fy) and st.eq(t_len(ox), t_len(oy)):
                cands.append(("len_eq", fx, fy))
            if fx is not fy and prove_bound(st, ox, t_len(oy)) and (ox[0] != "empty" or oy[0] in ("v", "concat", "empty")):
                import lax_model
                if not lax_model.LIST_ELEM.get(fx) and not lax_model.label_of(ox) and fx not in lax_model.LABEL_LEAVES:
                    cands.append(("bound_len", fx, fy))

    # counting with a vector of flags: `if !seen[i] { seen[i] = true; c += 1 }` (or `c -= 1`) keeps c ∓ #true(seen)
    # constant — the invariant behind `n - c` / `c - 1` not underflowing
    for (fx, ox) in seqs:
        n0 = flag_count(st, ox)
        if is_flag_fill(ox) is None or n0 is None:
            continue
        for r, (place, v) in entry.items():
            for path, leafv in collect_leaves(v):
                if isinstance(leafv, VNat):
                    fc = get_path(fresh[r], path)
                    for sign in (1, -1):
                        cands.append(("count_flags", fc.p, fx, sign, leafv.p - n0 * sign))

    leaf_loc = {}
    for r, (place, v) in entry.items():
        for path, leafv in collect_leaves(fresh[r]):
            keyobj = leafv.t if isinstance(leafv, VSeq) else leafv.p
            leaf_loc[keyobj] = (place, path)

    def cur_of_factory(s):
        def cur_of(obj):
            loc = leaf_loc.get(obj)
            if loc is None:
                return None
            place, path = loc
            v = I.read_place(s, place)
            return get_path(v, path)
        return cur_of

    import loop_specs
    is_kahn = loop_specs.announce(I, fr, lname, entry, fresh)
    it = 0
    while True:
        it += 1
        head = st.copy()
        for r, (place, v) in entry.items():
            I.write_place(head, place, fresh[r])
        assume_cands(head, cands, None)
        n_ob = len(I.obligations)
        saved_unm = dict(I.unmodelled)
        saved_lem = dict(I.lemma_uses)
        saved_ass = dict(I.assumptions)
        saved_loop_ix = fr.loop_ix
        # the step specifications below decide on the facts of each path through the body: no joining in here
        saved_join = I.merge_shortcuts
        I.merge_shortcuts = False
        if is_kahn:
            I.kahn_body_depth = getattr(I, "kahn_body_depth", 0) + 1
        try:
            outs = run_body(head.copy())
        finally:
            I.merge_shortcuts = saved_join
            if is_kahn:
                I.kahn_body_depth -= 1
        failed = set()
        for (s, v, ctl) in outs:
            if ctl in (None, "continue"):
                cur_of = cur_of_factory(s)
                for i, c in enumerate(cands):
                    if i not in failed and not check_cand(s, c, cur_of):
                        failed.add(i)
        if not failed and it <= 6:
            # widen the candidate set with upper bounds observed at the back edges that also
            # hold at loop entry (e.g. a frontier that starts empty)
            extra = []
            for (s, v, ctl) in outs:
                if ctl not in (None, "continue"):
                    continue
                cur_of = cur_of_factory(s)
                for obj, (place, path) in leaf_loc.items():
                    if not (isinstance(obj, tuple) and obj and obj[0] == "v"):
                        continue
                    curv = cur_of(obj)
                    if not isinstance(curv, VSeq):
                        continue
                    ev = get_path(entry_value_of(entry, place), path)
                    if not isinstance(ev, VSeq):
                        continue
                    # lists of hyperedges: bounds of the pushed elements' fields
                    import lax_model, inv
                    parts = curv.t[1:] if curv.t[0] == "concat" else (curv.t,)
                    for part in parts:
                        if part[0] == "single" and part[1][0] == "rec" and part[1][1] == inv.LEDGE:
                            body = lax_model.thaw(part[1])
                            for fld in ("sources", "targets"):
                                for b in ubs(s, body.f[fld].t):
                                    if any(mentions_loopvar(a) for a in b.atoms()):
                                        continue
                                    c = ("elbound", obj, fld, b)
                                    if c in cands or c in extra:
                                        continue
                                    if inv.elems_bounded(st, ev.t, fld, b):
                                        extra.append(c)
                    for b in ubs(s, curv.t):
                        if any(mentions_loopvar(a) for a in b.atoms()):
                            continue
                        c = ("seq_bound", obj, b)
                        if c in cands or c in extra:
                            continue
                        if any(cc[0] == "seq_bound" and cc[1] == obj for cc in cands):
                            continue
                        if prove_bound(st, ev.t, b):
                            extra.append(c)
            if extra:
                del I.obligations[n_ob:]
                I.unmodelled = saved_unm
                I.lemma_uses = saved_lem
                I.assumptions = saved_ass
                fr.loop_ix = saved_loop_ix
                cands = cands + extra
                continue
        if not failed or it > 12:
            if failed:
                cands = [c for i, c in enumerate(cands) if i not in failed]
            break
        # roll back everything recorded during this provisional pass
        del I.obligations[n_ob:]
        I.unmodelled = saved_unm
        I.lemma_uses = saved_lem
        I.assumptions = saved_ass
        fr.loop_ix = saved_loop_ix
        cands = [c for i, c in enumerate(cands) if i not in failed]
    import loop_specs
    loop_specs.check(I, fr, lname, names, entry, fresh, head, outs)
    # what the loop reads (may-depend set of its summarised variables): leaves mentioned by the decisions taken in
    # one iteration and by the values it leaves in the loop-carried variables
    try:
        import spec_checks
        deps = set()
        n0 = len(head.lin.facts)
        for (s, v, ctl) in outs:
            for (k_, p_) in s.lin.facts[n0:]:
                spec_checks.leaves_of(p_, deps)
            for (x_, y_, _) in s.tne:
                spec_checks.leaves_of(x_, deps)
                spec_checks.leaves_of(y_, deps)
            for (x_, y_) in s.teq[len(head.teq):]:
                spec_checks.leaves_of(x_, deps)
                spec_checks.leaves_of(y_, deps)
            for (key_, pol_) in s.unk:
                spec_checks.leaves_of(key_, deps)
            for r, (place, v0) in entry.items():
                try:
                    spec_checks.value_deps(I.read_place(s, place), deps)
                except Exception:
                    pass
        for r, (place, v0) in entry.items():
            spec_checks.value_deps(v0, deps)
        LOOP_DEPS[lname] = deps
    except Exception:
        pass
    I.loop_info.append({"fn": lname[0], "loop": lname[1], "what": what, "iterations": it,
                        "invariants": [fmt_cand(c) for c in cands if c[0] != "nat_ge"]})
    exits = [(s, UNIT, None) for (s, v, ctl) in outs if ctl == "break"]
    others = [(s, v, ctl) for (s, v, ctl) in outs if ctl == "ret"]
    return head, exits, others


def entry_value_of(entry, place):
    for r, (pl, v) in entry.items():
        if pl == place:
            return v
    return None


def mentions_loopvar(a):
    if isinstance(a, tuple):
        if a and a[0] == "loopvar":
            return True
        return any(mentions_loopvar(x) for x in a)
    if isinstance(a, Poly):
        return any(mentions_loopvar(x) for x in a.atoms())
    return False


def fmt_cand(c):
    k = c[0]
    if k.startswith("nat"):
        return f"{k}: {show_poly(c[1])} vs {show_poly(c[2])}"
    if k in ("seq_len", "seq_bound"):
        return f"{k}: {show_term(c[1])} : {show_poly(c[2])}"
    if k == "elbound":
        return f"{k}: {show_term(c[1])}.{c[2]} < {show_poly(c[3])}"
    if k == "rec_inv":
        return f"rec_inv: {c[1].ty} at {'.'.join(c[2])}"
    if k == "count_flags":
        return f"count_flags: {show_poly(c[1])} {'-' if c[3] > 0 else '+'} #true({show_term(c[2])}) == {show_poly(c[4])}"
    return f"{k}: {show_term(c[1])} ~ {show_term(c[2])}"


def counted_while(I, e, st, fr, roots):
    """`while c < B { ..; c += 1 }` / `while c != B { ..; c += 1 }` with a counter c that the body advances by one on
    every path and a bound B that the loop does not change: the body runs for c = c0, c0+1, .., B-1 — summarised
    exactly like `for` over that range by the fold idioms (None when the loop is not of this shape)."""
    import lax_model
    if e.get("src") != "While" or e.get("stmts"):
        return None
    t = e.get("tail")
    if not t or t.get("k") != "if" or not t.get("else"):
        return None
    cands = []
    for r in sorted(roots, key=repr):
        key = (fr.id, r)
        v = st.env.get(key)
        if isinstance(v, VNat):
            cands.append((r, key, v.p))
    found = None
    for (r, key, c0) in cands:
        probe = st.copy()
        m = Poly.atom(("while-counter", id(e), str(r)))
        probe.env[key] = VNat(m)
        try:
            outs = I.ev(t["cond"], probe, fr)
        except Exception:
            continue
        if len(outs) != 1 or outs[0][2] is not None or not isinstance(outs[0][1], VBool):
            continue
        f = outs[0][1].f
        B = None
        if f[0] == "cmp" and f[1] == "ge":          # B - m - 1 >= 0
            B = f[2] + m + 1
        elif f[0] == "cmp" and f[1] == "ne":        # m - B != 0  or  B - m != 0
            B = f[2] + m if (f[2] + m).atoms().isdisjoint({next(iter(m.atoms()))}) else m - f[2]
        if B is None or (B.atoms() & m.atoms()):
            continue
        found = (r, key, c0, B)
        break
    if found is None:
        return None
    r, key, c0, B = found
    if not st.ge(B, c0):
        return None
    N = B - c0
    if st.eq(N, 0):
        return [(st, UNIT, None)]
    seq = VSeq(mk_arange(0, N))

    def run_body(s, elem):
        return I.ev(t["then"], s, fr)
    n_ob = len(I.obligations)
    out = lax_model.fold_loop(I, st, fr, e, seq, None, None, roots, run_body)
    if out is None:
        return None
    res = out[0][0]
    endv = res.env.get(key)
    # the counter must have advanced by exactly one per iteration, and the loop condition must now be false
    if not (isinstance(endv, VNat) and res.eq(endv.p, B)):
        del I.obligations[n_ob:]
        return None
    chk = I.ev(t["cond"], res.copy(), fr)
    if len(chk) != 1 or not isinstance(chk[0][1], VBool) or I.assume(res.copy(), chk[0][1].f):
        del I.obligations[n_ob:]
        return None
    return out


def while_loop(I, e, st, fr):
    roots = modified_roots(I, [e], fr)
    r = counted_while(I, e, st, fr, roots)
    if r is not None:
        return r

    def body(s):
        return I.run_block(e["stmts"], e.get("tail"), s, fr)
    head, exits, others = run_loop(I, st, fr, e, roots, body, e.get("src", "loop"))
    return exits + others


def for_loop(I, e, st, fr):
    """`for pat in iterable { body }` (HIR: match into_iter(x) { mut iter => loop { match next(..) {..}}})."""
    import lax_model
    scrut = e["scrut"]
    if scrut["k"] != "call" or not scrut["callee"]["def"].endswith("IntoIterator::into_iter"):
        raise NotImplementedError("for-loop scrutinee")
    arm = e["arms"][0]
    loop = arm["body"]
    while loop["k"] == "block" and not loop["stmts"] and loop.get("tail"):
        loop = loop["tail"]
    inner = loop["stmts"][0]["e"] if loop["stmts"] else loop["tail"]
    assert inner["k"] == "match", inner["k"]
    some_arm = None
    pat = None
    for a in inner["arms"]:
        p = a["pat"]
        if p["k"] == "tuple_struct" and p["pats"]:
            some_arm = a
            pat = p["pats"][0]
        elif p["k"] == "struct" and p["fields"]:
            some_arm = a
            pat = p["fields"][0]["pat"]
    body_expr = some_arm["body"]
    out = []
    for (s0, itv, c) in I.ev_arg(scrut["args"][0], st, fr):
        if c is not None:
            out.append((s0, itv, c))
            continue
        roots = modified_roots(I, [body_expr], fr)
        summ = lax_model.summarise_for(I, s0, fr, e, itv, pat, body_expr, roots)
        if summ is not None:
            out.extend(summ)
            continue

        def body(s):
            res = []
            for (s1, elem) in lax_model.iter_elements(I, s, fr, e, itv):
                m, u = I.match_pat(pat, elem, s1, fr)
                for s2 in m:
                    res.extend(I.ev(body_expr, s2, fr))
            return res
        head, exits, others = run_loop(I, s0, fr, e, roots, body, "for", extra_values=[itv])
        if isinstance(itv, VMutRef):
            # iteration by mutable reference outside the summarised idioms: what the body wrote through the element
            # reference is not tracked, so the iterated sequence is unknown afterwards (same length)
            fr.loop_ix += 0
            for s_ in [head] + [x[0] for x in exits] + [x[0] for x in others]:
                try:
                    place, cur = lax_model.place_of(I, s_, itv)
                    if isinstance(cur, VSeq):
                        lf = leaf(("loopvar", (fr.fn["path"] if fr.fn else "?", "loop%d" % fr.loop_ix, "iter_mut"), str(place[1])))
                        s_.add_eq(t_len(lf) - t_len(cur.t))
                        if lax_model.LIST_ELEM.get(cur.t):
                            lax_model.LIST_ELEM[lf] = lax_model.LIST_ELEM[cur.t]
                        I.write_place(s_, place, VSeq(lf))
                except Exception:
                    pass
        # the loop may run zero or more times: the abstract head state covers every exit
        out.append((head, UNIT, None))
        out.extend(exits)
        out.extend(others)
    return out
