"""Driver for E1 shapecheck: analyses every function of the crate as an entry point with
symbolic well-formed arguments and collects obligations."""
import os
import sys
import signal
import time
import traceback
from poly import Poly, as_poly, show_poly
from values import *
from interp import Interp, Frame, Unsupported
import inv
import specs

SKIP_TRAITS = {"std::fmt::Debug", "std::hash::Hash", "std::cmp::Eq", "std::clone::Clone",
               "std::marker::StructuralPartialEq"}


def is_entry(fn):
    p = fn["path"]
    import vecspec
    if vecspec.is_vec_entry(fn):
        return True    # VECSPEC: the Vec backend's primitives against the array contract (C07)
    if fn["sp"].startswith("src/array/vec/"):
        return False   # remaining Vec backend items (wrappers, union-find, hash-map counting): not analysed
    if p.startswith("semifinite::arrow") or "semifinite::arrow::SemifiniteArrow" in p:
        return False   # SemifiniteArrow: not anchored by any property (4 todo!() bodies)
    if fn.get("impl_trait") in SKIP_TRAITS:
        return False
    if fn.get("vis") != "pub" and not os.environ.get("OHSA_ALL"):
        return False   # crate-private helpers are analysed in the context of their public callers
    if private_self_type(fn) and not (fn.get("impl_trait") == "lax::functor::traits::Functor"
                                      and fn["name"] in ("map_operation", "map_object")):
        return False   # impls on private helper types: reached through their public users — except their Functor
                       # impls (ForgetMonogamous, lax::optic::Fwd/Rev), which the functor framework calls through the
                       # trait object of a loop and which carry specs of their own (map_operation / map_object; `map_arrow` of Fwd/Rev
                       # is a documented never-called panic and stays reachable only through the public users)
    m = fn.get("mac")
    if m and any("derive" in x or x in ("Clone", "PartialEq", "Debug", "Hash", "Eq") for x in m):
        return False
    return True


PRIVATE_TYPES = set()


def private_self_type(fn):
    s = fn.get("impl_self", "")
    base = s.lstrip("&").split("<")[0]
    return base in PRIVATE_TYPES


def param_name(p, i):
    pat = p["pat"]
    if pat["k"] == "bind":
        return pat["name"]
    if pat["k"] == "ref" and pat["pat"]["k"] == "bind":
        return pat["pat"]["name"]
    return f"arg{i}"


class EntryTimeout(BaseException):
    """Raised by the per-entry timer; not an Exception, so no handler inside the analysis can swallow it."""


class Shapecheck:
    def __init__(self, facts):
        self.facts = facts
        for sp, sd in facts.structs.items():
            if sd.get("vis") == "priv":
                PRIVATE_TYPES.add(sp)
        self.I = Interp(facts)
        self.results = {}     # entry key -> dict
        self.errors = {}      # entry key -> message
        self.entry_time_limit = 20
        self.entry_assumed = {}

    def type_named(self, s):
        for i, t in enumerate(self.facts.types):
            if t["s"] == s:
                return i
        return None

    def instantiations(self, fn):
        """Generic `F: HasLen` parameters of IndexedCoproduct methods are analysed at both
        concrete value kinds used in the crate."""
        gens = fn.get("generics", [])
        if "F" in gens and "IndexedCoproduct::<K, F>" in fn["path"]:
            ff = self.type_named("finite_function::arrow::FiniteFunction<K>")
            sf = None
            for i, t in enumerate(self.facts.types):
                if t["k"] == "adt" and t["path"] == inv.SEMI:
                    sf = i
                    break
            return [("F=FiniteFunction", {"F": ff}), ("F=SemifiniteFunction", {"F": sf})]
        return [("", {})]

    def run_entry(self, fn, inst_name="", tsub=None):
        I = self.I
        key = fn["path"] + (("[" + inst_name + "]") if inst_name else "")
        I.entry = key
        n0 = len(I.obligations)
        # per-entry registries of leaf kinds (leaf names such as `self` recur between entry points)
        import lax_model
        lax_model.LABEL_LEAVES.clear()
        lax_model.FLAG_LEAVES.clear()
        lax_model.LIST_ELEM.clear()
        import loops
        loops.LOOP_DEPS.clear()
        import loop_specs
        loop_specs.KAHN_ROLES.clear()
        if hasattr(I, "_templates"):
            I._templates.clear()
        st = State()
        fr0 = Frame(None)
        args = []
        muts = []
        raw = specs.raw_params(fn["path"])
        inv.RANGE_PARAM[0] = fn["name"] in ("to_range", "get_range", "set_range")
        inv.SELF_KIND[0] = "array" if fn.get("trait_default_of", "").startswith("array::traits") else None
        if fn.get("trait_default_of", "") == "indexed_coproduct::arrow::HasLen":
            inv.SELF_KIND[0] = "ff"          # default method analysed at the FiniteFunction implementation
        if fn.get("trait_default_of", "") == "category::spider::Spider":
            inv.SELF_KIND[0] = "strict-oh"   # the default method is analysed at the strict implementation
        try:
            for i, p in enumerate(fn["params"]):
                nm = param_name(p, i)
                tyid = p["pat"].get("ty", p["ty"])
                tyd = self.facts.ty(tyid)
                is_mut_ref = tyd["k"] == "ref" and tyd.get("mut")
                v = self.sym_param(I, st, tyid, nm, wf=(nm not in raw), tsub=tsub or {})
                if is_mut_ref:
                    root = (fr0.id, ("entry", i))
                    st.env[root] = v
                    args.append(VMutRef((root, ())))
                    muts.append((nm, root))
                else:
                    args.append(v)
            names = [param_name(p, i) for i, p in enumerate(fn["params"])]
            vals0 = [st.env[a.place[0]] if isinstance(a, VMutRef) else a for a in args]
            self.entry_assumed[key] = specs.entry_assumptions(fn["path"], names, vals0, st, self, fr0)
            self.entry_assumed[key] += specs.override_args(fn["path"], names, args, st)
            import vecspec
            vec_ref = None
            if vecspec.is_vec_entry(fn):
                n_f = len(st.lin.facts)
                vec_ref = vecspec.reference(self, fn, args, st, fr0)
                if vec_ref and "assumed" in vec_ref:
                    self.entry_assumed[key] += ["array contract precondition: " + a for a in vec_ref["assumed"]]
                    vec_ref["n_facts"] = n_f
            pre_muts = {nm: st.env[root] for (nm, root) in muts}
            n_facts0 = len(st.lin.facts)
            n_teq0 = len(st.teq)
            t0 = time.time()
            def on_alarm(signum, frame):
                raise EntryTimeout("entry time limit exceeded")
            # the limit covers the evaluation, the invariant checks and the specification clauses of the entry; the
            # timer keeps firing (a handler that swallowed the first one is interrupted again)
            signal.signal(signal.SIGALRM, on_alarm)
            signal.setitimer(signal.ITIMER_REAL, self.entry_time_limit, 2.0)
            outs = I.call_fn(fn, args, st, fr0, {"sp": fn["sp"], "k": "entry"})
            # drop outcomes whose path is infeasible once empty-array consequences are drawn
            kept = []
            for (s_, v_, c_) in outs:
                I.saturate_bounds(s_)
                if not s_.infeasible():
                    kept.append((s_, v_, c_))
            outs = kept
            res = {"fn": fn, "key": key, "outs": outs, "args": args, "muts": muts, "st0": st, "fr0": fr0,
                   "pre_muts": pre_muts, "n_facts0": n_facts0, "n_teq0": n_teq0, "vec_ref": vec_ref}
            # INV of every value leaving the function
            chk = Frame(fn, None)
            for (s, v, c) in outs:
                if not specs.skip_inv(fn["path"]):
                    inv.check_inv(I, s, chk, {"sp": fn["sp"]}, v, "return value")
                    for (nm, root) in muts:
                        inv.check_inv(I, s, chk, {"sp": fn["sp"]}, s.env[root], "post-state of *" + nm)
            specs.after_entry(self, res)
            res["obligations"] = I.obligations[n0:]
            res["time"] = time.time() - t0
            signal.setitimer(signal.ITIMER_REAL, 0)
            self.results[key] = res
        except EntryTimeout as ex:
            signal.setitimer(signal.ITIMER_REAL, 0)
            del I.obligations[n0:]
            self.errors[key] = f"Unsupported: {ex}"
        except (Unsupported, NotImplementedError, TypeError, KeyError, AssertionError, AttributeError, IndexError) as ex:
            signal.setitimer(signal.ITIMER_REAL, 0)
            del I.obligations[n0:]
            self.errors[key] = f"{type(ex).__name__}: {ex}"
            if I.trace:
                traceback.print_exc()
        finally:
            signal.setitimer(signal.ITIMER_REAL, 0)

    def sym_param(self, I, st, tyid, nm, wf, tsub):
        tyd = self.facts.ty(tyid)
        v = self._sym_sub(I, st, tyd, nm, tsub)
        if wf:
            inv.assume_inv(I, st, v)
        else:
            # raw parameter of a checked constructor: components are well-formed, the whole is not
            self.assume_raw(I, st, v)
        return v

    def assume_raw(self, I, st, v):
        if isinstance(v, VRec):
            for k, x in v.f.items():
                if specs.raw_field(v.ty, k):
                    self.assume_raw(I, st, x)
                else:
                    inv.assume_inv(I, st, x)

    def _sym_sub(self, I, st, tyd, nm, tsub):
        if not tsub:
            return inv._sym(I, st, tyd, nm, 0)
        # substitute type parameters (F) in the parameter's type, structurally
        facts = self.facts
        orig_ty = facts.ty

        def ty2(ix):
            t = orig_ty(ix)
            if t is not None and t["k"] == "param" and t["name"] in tsub and tsub[t["name"]] is not None:
                return orig_ty(tsub[t["name"]])
            return t
        facts.ty = ty2
        try:
            if tyd["k"] == "param" and tyd["name"] in tsub:
                tyd = orig_ty(tsub[tyd["name"]])
            return inv._sym(I, st, tyd, nm, 0)
        finally:
            facts.ty = orig_ty

    def run_all(self, only=None):
        for p in sorted(self.facts.fns):
            fn = self.facts.fns[p]
            if not is_entry(fn):
                continue
            if only and not any(o in p for o in only):
                continue
            for (nm, tsub) in self.instantiations(fn):
                self.run_entry(fn, nm, tsub)


def main():
    import os
    from ir import Facts
    facts = Facts(sys.argv[1])
    only = sys.argv[2:] or None
    sc = Shapecheck(facts)
    import os
    sc.I.trace = bool(os.environ.get('OHSA_TRACE'))
    t0 = time.time()
    sc.run_all(only)
    nfail = 0
    for key, res in sorted(sc.results.items()):
        obs = res["obligations"]
        failed = [o for o in obs if o.status == "failed"]
        outs = res["outs"]
        kinds = {}
        for (s, v, c) in outs:
            t = v.variant if isinstance(v, VEnum) else type(v).__name__
            kinds[t] = kinds.get(t, 0) + 1
        print(f"{'FAIL' if failed else 'ok  '} {key}: {len(obs)} obligations, {len(failed)} failed, outcomes {kinds} ({res['time']:.2f}s)")
        seen = set()
        W = int(os.environ.get("OHSA_W", "300"))
        for o in failed:
            nfail += 1
            k = (o.kind, o.fn, o.what, o.sp)
            if k in seen:
                continue
            seen.add(k)
            print(f"     - {o.kind} {o.what} @ {o.fn.split('::')[-1]} {o.sp.split('/')[-1]}\n         goal: {o.goal[:W]}\n         {o.detail[:W]}")
        if only:
            for (s, v, c) in outs:
                print("     =>", repr(v)[:1500])
            for o in obs:
                if o.status != "failed":
                    print(f"     + {o.status} {o.kind} {o.what} [{o.method}] {o.goal[:150]}")
    print()
    for key, msg in sorted(sc.errors.items()):
        print("ERROR", key, "::", msg)
    print(f"\nentries ok={len(sc.results)} errors={len(sc.errors)} failed-obligations={nfail} "
          f"total-obligations={len(sc.I.obligations)} time={time.time()-t0:.1f}s")
    if only and os.environ.get("OHSA_LOOPS"):
        for l in sc.I.loop_info:
            print("LOOP", l["fn"].split("::")[-1], l["loop"], l["what"], "iters", l["iterations"])
            for i in l["invariants"]:
                print("      inv:", i[:200])
    print("unmodelled:", {k: len(v) for k, v in sc.I.unmodelled.items()})
    print("assumptions:", sc.I.assumptions, "lemmas:", sc.I.lemma_uses)
    import rules_terms
    print("term rules:", rules_terms.USES)


if __name__ == "__main__":
    main()
