"""Struct invariants (what "well-formed" means, taken from new/validate) — assumed for the
parameters of an analysed entry point and proved for every value that leaves it."""
from poly import Poly, as_poly, show_poly
from values import *

FF = "finite_function::arrow::FiniteFunction"
SEMI = "semifinite::types::SemifiniteFunction"
IC = "indexed_coproduct::arrow::IndexedCoproduct"
OPS = "operations::Operations"
SH = "strict::hypergraph::object::Hypergraph"
SOH = "strict::open_hypergraph::arrow::OpenHypergraph"
ARR = "strict::hypergraph::arrow::HypergraphArrow"
IT_FF = "indexed_coproduct::iterator::IndexedCoproductFiniteFunctionIterator"
IT_SF = "indexed_coproduct::semifinite_iterator::IndexedCoproductSemifiniteFunctionIterator"
LH = "lax::hypergraph::Hypergraph"
LOH = "lax::open_hypergraph::OpenHypergraph"
LEDGE = "lax::hypergraph::Hyperedge"


SELF_KIND = [None]
RANGE_PARAM = [False]


def values_len(v):
    """Length of the `values` component of a segmented array (FiniteFunction or Semifinite)."""
    if isinstance(v, VRec) and v.ty == FF:
        return t_len(v.f["table"].t)
    if isinstance(v, VRec) and v.ty == SEMI:
        return t_len(v.f["0"].t)
    if isinstance(v, VSeq):
        return t_len(v.t)
    return None


def conditions(v, path=""):
    """The invariant of value v as a list of atomic conditions:
    ('bound', term, Poly, text) | ('eq', Poly, Poly, text) | ('ge', Poly, Poly, text)."""
    out = []
    if isinstance(v, VRec):
        ty = v.ty
        f = v.f
        if ty == FF:
            if isinstance(f.get("table"), VSeq) and isinstance(f.get("target"), VNat):
                out.append(("bound", f["table"].t, f["target"].p, f"INV_FF{path}: ub(table) <= target"))
        elif ty == IC:
            out += conditions(f["sources"], path + ".sources")
            out += conditions(f["values"], path + ".values")
            src = f["sources"]
            if isinstance(src, VRec) and src.ty == FF and isinstance(src.f.get("table"), VSeq):
                sm = t_sum(src.f["table"].t)
                out.append(("eq", src.f["target"].p, sm + 1, f"INV_IC{path}: sources.target == sum(sizes)+1"))
                n = values_len(f["values"])
                if n is not None:
                    out.append(("eq", sm, n, f"INV_IC{path}: sum(sizes) == len(values)"))
        elif ty == OPS:
            out += conditions(f["a"], path + ".a")
            out += conditions(f["b"], path + ".b")
            nx = values_len(f["x"])
            out.append(("eq", t_len(f["a"].f["sources"].f["table"].t), nx, f"INV_OPS{path}: len(a) == len(x)"))
            out.append(("eq", t_len(f["b"].f["sources"].f["table"].t), nx, f"INV_OPS{path}: len(b) == len(x)"))
        elif ty == SH:
            out += conditions(f["s"], path + ".s")
            out += conditions(f["t"], path + ".t")
            nx = values_len(f["x"])
            nw = values_len(f["w"])
            out.append(("eq", t_len(f["s"].f["sources"].f["table"].t), nx, f"INV_H{path}: len(s) == len(x)"))
            out.append(("eq", t_len(f["t"].f["sources"].f["table"].t), nx, f"INV_H{path}: len(t) == len(x)"))
            out.append(("eq", f["s"].f["values"].f["target"].p, nw, f"INV_H{path}: s.values.target == len(w)"))
            out.append(("eq", f["t"].f["values"].f["target"].p, nw, f"INV_H{path}: t.values.target == len(w)"))
        elif ty == SOH:
            out += conditions(f["h"], path + ".h")
            out += conditions(f["s"], path + ".s")
            out += conditions(f["t"], path + ".t")
            nw = values_len(f["h"].f["w"])
            out.append(("eq", f["s"].f["target"].p, nw, f"INV_OH{path}: s.target == len(h.w)"))
            out.append(("eq", f["t"].f["target"].p, nw, f"INV_OH{path}: t.target == len(h.w)"))
        elif ty == ARR:
            out += conditions(f["source"], path + ".source")
            out += conditions(f["target"], path + ".target")
            out += conditions(f["w"], path + ".w")
            out += conditions(f["x"], path + ".x")
            out.append(("eq", t_len(f["w"].f["table"].t), values_len(f["source"].f["w"]), f"INV_ARR{path}: w.source == |source.w|"))
            out.append(("eq", f["w"].f["target"].p, values_len(f["target"].f["w"]), f"INV_ARR{path}: w.target == |target.w|"))
            out.append(("eq", t_len(f["x"].f["table"].t), values_len(f["source"].f["x"]), f"INV_ARR{path}: x.source == |source.x|"))
            out.append(("eq", f["x"].f["target"].p, values_len(f["target"].f["x"]), f"INV_ARR{path}: x.target == |target.x|"))
        elif ty in (IT_FF, IT_SF):
            out += conditions(f["values"], path + ".values")
        else:
            for k, x in f.items():
                out += conditions(x, path + "." + k)
    elif isinstance(v, VTup):
        for i, x in enumerate(v.items):
            out += conditions(x, path + "." + str(i))
    elif isinstance(v, VEnum):
        for i, x in enumerate(v.payload):
            if isinstance(x, V):
                out += conditions(x, path)
    return out


def assume_inv(I, st, v):
    for c in conditions(v):
        if c[0] == "bound":
            st.add_bound(c[1], c[2])
        elif c[0] == "eq":
            st.add_eq(as_poly(c[1]) - as_poly(c[2]))
        elif c[0] == "ge":
            st.add_ge(as_poly(c[1]) - as_poly(c[2]))


def check_inv(I, st, fr, node, v, what):
    """Prove the invariant of v; one INV obligation per atomic condition."""
    n_ok = 0
    for c in conditions(v):
        if c[0] == "bound":
            ok = prove_bound(st, c[1], c[2])
            goal = f"{c[3]} :: ub({show_term(c[1])}) <= {show_poly(c[2])}"
        elif c[0] == "eq":
            ok = st.eq(c[1], c[2])
            goal = f"{c[3]} :: {show_poly(as_poly(c[1]))} == {show_poly(as_poly(c[2]))}"
        else:
            ok = st.ge(c[1], c[2])
            goal = f"{c[3]} :: {show_poly(as_poly(c[1]))} >= {show_poly(as_poly(c[2]))}"
        I.oblige("INV", fr, node, what, goal, ok, "lp" if ok else "", detail="" if ok else I.describe(st))
        n_ok += 1 if ok else 0
    return n_ok


# ---------------------------------------------------------------------------------------------
# Symbolic (well-formed) values for parameters

def symbolic(I, st, tyid, name, wf=True, depth=0):
    tyd = I.facts.ty(tyid)
    v = _sym(I, st, tyd, name, depth)
    if wf:
        assume_inv(I, st, v)
    return v


def _sym(I, st, tyd, name, depth):
    k = tyd["k"]
    s = tyd["s"]
    if depth > 8:
        return VTop("deep " + name)
    if k in ("uint", "int"):
        return VNat(Poly.atom(name))
    if k == "bool":
        return VBool(("unk", ("param", name)))
    if k == "ref" or k == "ptr":
        return _sym(I, st, I.facts.ty(tyd["inner"]), name, depth)
    if k in ("slice", "array"):
        return VSeq(leaf(name))
    if k == "tuple":
        return VTup([_sym(I, st, I.facts.ty(t), f"{name}.{i}", depth + 1) for i, t in enumerate(tyd["items"])])
    if k == "alias":
        last = tyd["path"].split("::")[-1]
        if last == "I":
            return VNat(Poly.atom(name))
        if last in ("Index", "Type", "Slice"):
            return VSeq(leaf(name))
        if last == "Object" and SELF_KIND[0] == "strict-oh":
            return VRec(SEMI, {"0": VSeq(leaf(name + ".0"))})
        return VUser(name)
    if k == "param" and tyd["name"] == "Self" and SELF_KIND[0] == "array":
        return VSeq(leaf(name))
    if k == "param":
        nm = tyd["name"]
        return VUser(("range:" if nm == "R" and RANGE_PARAM[0] else "") + name)
    if k == "adt":
        p = tyd["path"]
        if p.endswith("vec::Vec") or p.endswith("VecArray"):
            return VSeq(leaf(name))
        if p == "std::option::Option":
            return VTop("option param " + name)
        if p.endswith("boxed::Box") or p.endswith("rc::Rc") or p.endswith("cell::RefCell"):
            if tyd["args"]:
                return _sym(I, st, I.facts.ty(tyd["args"][0]), name, depth)
            return VUser(name)
        if p.endswith("PhantomData"):
            return UNIT
        sd = I.facts.structs.get(p)
        if sd is not None:
            if sd["name"] in ("NodeId", "EdgeId"):
                return VNat(Poly.atom(name))
            # generic substitution: field types mention the struct's own parameters
            sub = dict(zip(sd["generics"], tyd["args"]))
            fields = {}
            for f in sd["fields"]:
                ft = I.facts.ty(f["ty"])
                ft = subst_ty(I, ft, sub, sd["generics"], tyd["args"])
                fields[f["name"]] = _sym(I, st, ft, f"{name}.{f['name']}", depth + 1)
            v = VRec(p, fields)
            return post_sym(I, st, v, name)
        return VUser(name)
    if k in ("closure", "fnptr", "dyn", "fndef"):
        return VUser(name)
    return VTop("param " + name + ":" + s)


def subst_ty(I, ft, sub, gnames, gargs):
    """Instantiate a struct field type (expressed over the struct's generics)."""
    if ft["k"] == "param":
        # lifetimes are not in `args`: align by the type parameters only
        tparams = [g for g in gnames if not g.startswith("'")]
        if ft["name"] in tparams:
            i = tparams.index(ft["name"])
            if i < len(gargs):
                return I.facts.ty(gargs[i])
    return ft


def post_sym(I, st, v, name):
    """Representation invariants that relate leaves (beyond `conditions`)."""
    if v.ty in (IT_FF, IT_SF):
        # pointers are the cumulative sum of some segment sizes; cursor within range
        sizes = leaf(name + ".sizes")
        v = v.with_field("pointers", VSeq(("cumsum", sizes)))
        vals = v.f["values"]
        n = values_len(vals)
        st.add_eq(t_sum(sizes) - n)
        st.add_ge(t_len(sizes) - v.f["index"].p)
        st.add_prop("mono", ("cumsum", sizes))
    return v


def call_override(I, fn, vals, st, fr, e):
    """Call-site summaries from the oracle table (their conformance with the body is decided
    when the function itself is analysed as an entry point: ACC + REJ)."""
    if fn["path"].endswith("finite_function::arrow::FiniteFunction::<K>::new") and fr.fn is not None:
        table, target = vals
        if isinstance(table, VSeq) and isinstance(target, VNat):
            v = VRec(FF, {"table": table, "target": target})
            if prove_bound(st, table.t, target.p):
                return [(st, some(v), None)]
            s_no = st.copy()
            s_no.unk = s_no.unk + ((("FiniteFunction::new rejects", show_term(table.t)[:120], show_poly(target.p)), True),)
            s_no.note(f"FiniteFunction::new rejects: some element of {show_term(table.t)[:160]} >= {show_poly(target.p)}")
            s_no.add_ge(t_len(table.t) - 1)
            m = Poly.atom(("max", table.t))
            s_no.add_ge(m - target.p)          # the greatest element is outside the codomain
            for b in ubs(s_no, table.t):
                s_no.add_ge(b - m - 1)
            s_yes = st.copy()
            s_yes.add_bound(table.t, target.p)
            return [(s_no, NONE, None), (s_yes, some(v), None)]
    if fn["path"].endswith("strict::functor::traits::define_map_arrow") and fr.fn is not None:
        F = vals[0]
        while isinstance(F, VMutRef):
            F = I.read_place(st, F.place)
        if isinstance(F, VRec) and F.ty.endswith("strict::functor::optic::Optic"):
            # The optic's own object/operation maps are checked against their typing separately
            # (map_object, map_operations, adapt); that they form a functor is not decided.
            import contracts
            contracts.use(I, "A_OF")
            return contracts.h_map_arrow(I, st, fr, e, None, [VUser("Optic"), vals[1]])
    return None
