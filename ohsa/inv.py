"""Struct invariants (what "well-formed" means, taken from new/validate) — assumed for the
parameters of an analysed entry point and proved for every value that leaves it."""
from poly import Poly, as_poly, show_poly
from values import *

FF = "finite_function::arrow::FiniteFunction"
SEMI = "semifinite::types::SemifiniteFunction"
IC = "indexed_coproduct::arrow::IndexedCoproduct"
OPS = "operations::Operations"
SH = "strict::hypergraph::object::Hypergraph"
SOH = "strict::open_hypergraph::arrow::OpenHypergraph"
ARR = "strict::hypergraph::arrow::HypergraphArrow"
IT_FF = "indexed_coproduct::iterator::IndexedCoproductFiniteFunctionIterator"
IT_SF = "indexed_coproduct::semifinite_iterator::IndexedCoproductSemifiniteFunctionIterator"
LH = "lax::hypergraph::Hypergraph"
LOH = "lax::open_hypergraph::OpenHypergraph"
LEDGE = "lax::hypergraph::Hyperedge"


SELF_KIND = [None]
RANGE_PARAM = [False]


def values_len(v):
    """Length of the `values` component of a segmented array (FiniteFunction or Semifinite)."""
    if isinstance(v, VRec) and v.ty == FF:
        return t_len(v.f["table"].t)
    if isinstance(v, VRec) and v.ty == SEMI:
        return t_len(v.f["0"].t)
    if isinstance(v, VSeq):
        return t_len(v.t)
    return None


def conditions(v, path=""):
    """The invariant of value v as a list of atomic conditions:
    ('bound', term, Poly, text) | ('eq', Poly, Poly, text) | ('ge', Poly, Poly, text)."""
    out = []
    if isinstance(v, VRec):
        ty = v.ty
        f = v.f
        if ty == FF:
            if isinstance(f.get("table"), VSeq) and isinstance(f.get("target"), VNat):
                out.append(("bound", f["table"].t, f["target"].p, f"INV_FF{path}: ub(table) <= target"))
        elif ty == IC:
            out += conditions(f["sources"], path + ".sources")
            out += conditions(f["values"], path + ".values")
            src = f["sources"]
            if isinstance(src, VRec) and src.ty == FF and isinstance(src.f.get("table"), VSeq):
                sm = t_sum(src.f["table"].t)
                out.append(("eq", src.f["target"].p, sm + 1, f"INV_IC{path}: sources.target == sum(sizes)+1"))
                n = values_len(f["values"])
                if n is not None:
                    out.append(("eq", sm, n, f"INV_IC{path}: sum(sizes) == len(values)"))
        elif ty == OPS:
            out += conditions(f["a"], path + ".a")
            out += conditions(f["b"], path + ".b")
            nx = values_len(f["x"])
            out.append(("eq", t_len(f["a"].f["sources"].f["table"].t), nx, f"INV_OPS{path}: len(a) == len(x)"))
            out.append(("eq", t_len(f["b"].f["sources"].f["table"].t), nx, f"INV_OPS{path}: len(b) == len(x)"))
        elif ty == SH:
            out += conditions(f["s"], path + ".s")
            out += conditions(f["t"], path + ".t")
            nx = values_len(f["x"])
            nw = values_len(f["w"])
            out.append(("eq", t_len(f["s"].f["sources"].f["table"].t), nx, f"INV_H{path}: len(s) == len(x)"))
            out.append(("eq", t_len(f["t"].f["sources"].f["table"].t), nx, f"INV_H{path}: len(t) == len(x)"))
            out.append(("eq", f["s"].f["values"].f["target"].p, nw, f"INV_H{path}: s.values.target == len(w)"))
            out.append(("eq", f["t"].f["values"].f["target"].p, nw, f"INV_H{path}: t.values.target == len(w)"))
        elif ty == SOH:
            out += conditions(f["h"], path + ".h")
            out += conditions(f["s"], path + ".s")
            out += conditions(f["t"], path + ".t")
            nw = values_len(f["h"].f["w"])
            out.append(("eq", f["s"].f["target"].p, nw, f"INV_OH{path}: s.target == len(h.w)"))
            out.append(("eq", f["t"].f["target"].p, nw, f"INV_OH{path}: t.target == len(h.w)"))
        elif ty == ARR:
            out += conditions(f["source"], path + ".source")
            out += conditions(f["target"], path + ".target")
            out += conditions(f["w"], path + ".w")
            out += conditions(f["x"], path + ".x")
            out.append(("eq", t_len(f["w"].f["table"].t), values_len(f["source"].f["w"]), f"INV_ARR{path}: w.source == |source.w|"))
            out.append(("eq", f["w"].f["target"].p, values_len(f["target"].f["w"]), f"INV_ARR{path}: w.target == |target.w|"))
            out.append(("eq", t_len(f["x"].f["table"].t), values_len(f["source"].f["x"]), f"INV_ARR{path}: x.source == |source.x|"))
            out.append(("eq", f["x"].f["target"].p, values_len(f["target"].f["x"]), f"INV_ARR{path}: x.target == |target.x|"))
        elif ty in (IT_FF, IT_SF):
            out += conditions(f["values"], path + ".values")
        elif ty == LH:
            n = t_len(f["nodes"].t)
            out.append(("eq", t_len(f["edges"].t), t_len(f["adjacency"].t), f"INV_LAXH{path}: len(edges) == len(adjacency)"))
            out.append(("elbound", f["adjacency"].t, "sources", n, f"INV_LAXH{path}: edge sources < |nodes|"))
            out.append(("elbound", f["adjacency"].t, "targets", n, f"INV_LAXH{path}: edge targets < |nodes|"))
            q = f["quotient"]
            out.append(("bound", q.items[0].t, n, f"INV_LAXH{path}: quotient.0 < |nodes|"))
            out.append(("bound", q.items[1].t, n, f"INV_LAXH{path}: quotient.1 < |nodes|"))
            out.append(("eq", t_len(q.items[0].t), t_len(q.items[1].t), f"INV_LAXH{path}: quotient lists paired"))
        elif ty == LOH:
            out += conditions(f["hypergraph"], path + ".hypergraph")
            n = t_len(f["hypergraph"].f["nodes"].t)
            out.append(("bound", f["sources"].t, n, f"INV_LAXOH{path}: sources < |nodes|"))
            out.append(("bound", f["targets"].t, n, f"INV_LAXOH{path}: targets < |nodes|"))
        else:
            for k, x in f.items():
                out += conditions(x, path + "." + k)
    elif isinstance(v, VTup):
        for i, x in enumerate(v.items):
            out += conditions(x, path + "." + str(i))
    elif isinstance(v, VEnum):
        for i, x in enumerate(v.payload):
            if isinstance(x, V):
                out += conditions(x, path)
    return out


def assume_inv(I, st, v):
    for c in conditions(v):
        if c[0] == "bound":
            st.add_bound(c[1], c[2])
        elif c[0] == "eq":
            st.add_eq(as_poly(c[1]) - as_poly(c[2]))
        elif c[0] == "ge":
            st.add_ge(as_poly(c[1]) - as_poly(c[2]))
        elif c[0] == "elbound":
            if c[1][0] == "v":
                st.add_bound(("el", c[1], c[2]), c[3])


def elems_bounded(st, T, fld, B, depth=0):
    """Every element of the record list T has its field `fld` (a sequence) bounded by B."""
    import lax_model
    op = T[0]
    if op == "empty":
        return True
    if op == "v":
        return prove_bound(st, ("el", T, fld), B)
    if op == "concat":
        return all(elems_bounded(st, p, fld, B, depth + 1) for p in T[1:])
    if op == "sel":
        # a sub-list: every element is an element of the list
        return elems_bounded(st, T[1], fld, B, depth + 1)
    if op in ("lmap", "single"):
        body = lax_model.thaw(T[2] if op == "lmap" else T[1])
        if isinstance(body, VRec) and fld in body.f and isinstance(body.f[fld], VSeq):
            return prove_bound(st, body.f[fld].t, B)
        return False
    if op == "upd":
        # one element's field replaced
        if not elems_bounded(st, T[1], fld, B, depth + 1):
            return False
        if T[3] == (fld,):
            nv = lax_model.thaw(T[4])
            return isinstance(nv, VSeq) and prove_bound(st, nv.t, B)
        return True
    if op == "list":
        tpl = lax_model.TEMPLATES_GLOBAL.get(T)
        return False
    return False


def check_inv(I, st, fr, node, v, what):
    """Prove the invariant of v; one INV obligation per atomic condition."""
    n_ok = 0
    for c in conditions(v):
        if c[0] == "bound":
            ok = prove_bound(st, c[1], c[2])
            goal = f"{c[3]} :: ub({show_term(c[1])}) <= {show_poly(c[2])}"
        elif c[0] == "eq":
            ok = st.eq(c[1], c[2])
            goal = f"{c[3]} :: {show_poly(as_poly(c[1]))} == {show_poly(as_poly(c[2]))}"
        elif c[0] == "elbound":
            ok = elems_bounded(st, c[1], c[2], c[3])
            goal = f"{c[4]} :: every {c[2]} of {show_term(c[1])[:200]} < {show_poly(as_poly(c[3]))}"
        else:
            ok = st.ge(c[1], c[2])
            goal = f"{c[3]} :: {show_poly(as_poly(c[1]))} >= {show_poly(as_poly(c[2]))}"
        I.oblige("INV", fr, node, what, goal, ok, "lp" if ok else "", detail="" if ok else I.describe(st))
        n_ok += 1 if ok else 0
    return n_ok


# ---------------------------------------------------------------------------------------------
# Symbolic (well-formed) values for parameters

def symbolic(I, st, tyid, name, wf=True, depth=0):
    tyd = I.facts.ty(tyid)
    v = _sym(I, st, tyd, name, depth)
    if wf:
        assume_inv(I, st, v)
    return v


def _sym(I, st, tyd, name, depth):
    k = tyd["k"]
    s = tyd["s"]
    if depth > 8:
        return VTop("deep " + name)
    if k in ("uint", "int"):
        return VNat(Poly.atom(name))
    if k == "bool":
        return VBool(("unk", ("param", name)))
    if k == "ref" or k == "ptr":
        return _sym(I, st, I.facts.ty(tyd["inner"]), name, depth)
    if k in ("slice", "array"):
        lf = leaf(name)
        et = I.facts.ty(tyd["inner"])
        import lax_model
        if et["k"] == "param":
            lax_model.LABEL_LEAVES.add(lf)
        elif et["k"] == "adt" and et["path"] in I.facts.structs and et["path"].split("::")[-1] not in ("NodeId", "EdgeId"):
            lax_model.LIST_ELEM[lf] = ("struct", tyd["inner"])
        return VSeq(lf)
    if k == "tuple":
        return VTup([_sym(I, st, I.facts.ty(t), f"{name}.{i}", depth + 1) for i, t in enumerate(tyd["items"])])
    if k == "alias":
        last = tyd["path"].split("::")[-1]
        if last == "I":
            return VNat(Poly.atom(name))
        if last in ("Index", "Type", "Slice"):
            return VSeq(leaf(name))
        if last == "Object" and SELF_KIND[0] == "strict-oh":
            return VRec(SEMI, {"0": VSeq(leaf(name + ".0"))})
        return VUser(name)
    if k == "param" and tyd["name"] == "Self" and SELF_KIND[0] == "array":
        return VSeq(leaf(name))
    if k == "param" and tyd["name"] == "Self" and SELF_KIND[0] == "ff":
        return VRec(FF, {"table": VSeq(leaf(name + ".table")), "target": VNat(Poly.atom(name + ".target"))})
    if k == "param":
        nm = tyd["name"]
        return VUser(("range:" if nm == "R" and RANGE_PARAM[0] else "") + name)
    if k == "adt":
        p = tyd["path"]
        if p.endswith("vec::Vec") or p.endswith("VecArray"):
            lf = leaf(name)
            import lax_model
            if tyd["args"]:
                et = I.facts.ty(tyd["args"][0])
                if et["k"] == "adt" and et["path"] == LEDGE:
                    lax_model.LIST_ELEM[lf] = "hyperedge"
                elif et["k"] == "param":
                    lax_model.LABEL_LEAVES.add(lf)
                elif et["k"] == "adt" and et["path"] in I.facts.structs and et["path"].split("::")[-1] not in ("NodeId", "EdgeId"):
                    lax_model.LIST_ELEM[lf] = ("struct", tyd["args"][0])
            return VSeq(lf)
        if p == "std::option::Option":
            return VTop("option param " + name)
        if p.endswith("rc::Rc"):
            # shared heap cell: the value lives in a heap slot, the handle is a reference to it
            inner_t = I.facts.ty(tyd["args"][0])
            if inner_t["k"] == "adt" and inner_t["path"].endswith("cell::RefCell"):
                inner_t = I.facts.ty(inner_t["args"][0])
            root = ("heap", name)
            if root not in st.env:
                st.env[root] = _sym(I, st, inner_t, name, depth + 1)
                assume_inv(I, st, st.env[root])
            return VMutRef((root, ()))
        if p.endswith("boxed::Box") or p.endswith("cell::RefCell"):
            if tyd["args"]:
                return _sym(I, st, I.facts.ty(tyd["args"][0]), name, depth)
            return VUser(name)
        if p.endswith("PhantomData"):
            return UNIT
        sd = I.facts.structs.get(p)
        if sd is not None:
            if sd["name"] in ("NodeId", "EdgeId"):
                return VNat(Poly.atom(name))
            # generic substitution: field types mention the struct's own parameters
            sub = dict(zip(sd["generics"], tyd["args"]))
            fields = {}
            for f in sd["fields"]:
                ft = I.facts.ty(f["ty"])
                ft = subst_ty(I, ft, sub, sd["generics"], tyd["args"])
                fields[f["name"]] = _sym(I, st, ft, f"{name}.{f['name']}", depth + 1)
            v = VRec(p, fields)
            if p == "lax::var::var::Var":
                # every Var of one builder shares the builder state
                root = ("heap", "builder")
                if root not in st.env:
                    st.env[root] = st.env[v.f["state"].place[0]]
                v = v.with_field("state", VMutRef((root, ())))
                oh = st.env[root]
                if isinstance(oh, VRec) and oh.ty == LOH:
                    st.add_ge(t_len(oh.f["hypergraph"].f["edges"].t) - v.f["edge_id"].p - 1)
            return post_sym(I, st, v, name)
        return VUser(name)
    if k in ("closure", "fnptr", "dyn", "fndef"):
        return VUser(name)
    return VTop("param " + name + ":" + s)


def subst_ty(I, ft, sub, gnames, gargs):
    """Instantiate a struct field type (expressed over the struct's generics)."""
    if ft["k"] == "param":
        # lifetimes are not in `args`: align by the type parameters only
        tparams = [g for g in gnames if not g.startswith("'")]
        if ft["name"] in tparams:
            i = tparams.index(ft["name"])
            if i < len(gargs):
                return I.facts.ty(gargs[i])
    return ft


def post_sym(I, st, v, name):
    """Representation invariants that relate leaves (beyond `conditions`)."""
    if v.ty in (IT_FF, IT_SF):
        # pointers are the cumulative sum of some segment sizes; cursor within range
        sizes = leaf(name + ".sizes")
        v = v.with_field("pointers", VSeq(("cumsum", sizes)))
        vals = v.f["values"]
        n = values_len(vals)
        st.add_eq(t_sum(sizes) - n)
        st.add_ge(t_len(sizes) - v.f["index"].p)
        st.add_prop("mono", ("cumsum", sizes))
    return v


def call_override(I, fn, vals, st, fr, e):
    """Call-site summaries from the oracle table (their conformance with the body is decided
    when the function itself is analysed as an entry point: ACC + REJ)."""
    if fn["path"].endswith("finite_function::arrow::FiniteFunction::<K>::new") and fr.fn is not None:
        table, target = vals
        if isinstance(table, VSeq) and isinstance(target, VNat):
            v = VRec(FF, {"table": table, "target": target})
            if prove_bound(st, table.t, target.p):
                return [(st, some(v), None)]
            s_no = st.copy()
            s_no.unk = s_no.unk + ((("FiniteFunction::new rejects", show_term(table.t)[:120], show_poly(target.p)), True),)
            s_no.note(f"FiniteFunction::new rejects: some element of {show_term(table.t)[:160]} >= {show_poly(target.p)}")
            s_no.add_ge(t_len(table.t) - 1)
            m = Poly.atom(("max", table.t))
            s_no.add_ge(m - target.p)          # the greatest element is outside the codomain
            for b in ubs(s_no, table.t):
                s_no.add_ge(b - m - 1)
            s_yes = st.copy()
            s_yes.add_bound(table.t, target.p)
            return [(s_no, NONE, None), (s_yes, some(v), None)]
    if fn["path"].endswith("strict::functor::traits::define_map_arrow") and fr.fn is not None:
        F = vals[0]
        while isinstance(F, VMutRef):
            F = I.read_place(st, F.place)
        if isinstance(F, VRec) and F.ty.endswith("lax::functor::dyn_functor::DynFunctor"):
            # the strict machinery applied to a lax functor wrapped as DynFunctor: DynFunctor's
            # object/operation maps are analysed on their own (well-formedness, totality); that they
            # meet the strict contract A_F1/A_F2 rests on the lax functor's documented consistency
            import contracts
            contracts.use(I, "A_DYN")
            inner = F.f.get("inner")
            return contracts.h_map_arrow(I, st, fr, e, None, [VUser(("dyn", contracts.fkey(inner))), vals[1]])
        if isinstance(F, VRec) and F.ty.endswith("strict::functor::optic::Optic"):
            # The optic's own object/operation maps are checked against their typing separately
            # (map_object, map_operations, adapt); that they form a functor is not decided.
            import contracts
            contracts.use(I, "A_OF")
            return optic_map_arrow_summary(I, st, fr, e, F, vals[1])
    return None


def optic_map_arrow_summary(I, st, fr, e, F, f):
    """define_map_arrow(optic, f): a well-formed diagram of type Optic::map_object(source f) ->
    Optic::map_object(target f) (assumption A_OF; the object map itself is the crate's)."""
    import contracts
    while isinstance(f, VMutRef):
        f = I.read_place(st, f.place)
    mo = None
    for p, fn in I.facts.fns.items():
        if p.endswith("Functor<K, O1, A1, O2, A2>>::map_object") and "optic::Optic<" in p:
            mo = fn
    fw = f.f["h"].f["w"].f["0"].t
    name = ("user", "map_arrow", "Optic", fw, f.f["s"].f["table"].t, f.f["t"].f["table"].t)
    v = contracts.fresh_strict_oh(I, st, name)
    w = v.f["h"].f["w"].f["0"].t
    for leg in ("s", "t"):
        ty_in = mk_gather(st, fw, f.f[leg].f["table"].t)
        outs = I.call_fn(mo, [F, VRec(SEMI, {"0": VSeq(ty_in)})], st, fr, e)
        normal = [(s2, r) for (s2, r, c) in outs if c is None]
        s2, r = normal[-1]
        ty_out = r.f["values"].f["0"].t
        legt = ("gather", w, v.f[leg].f["table"].t)
        st.teq = st.teq + ((legt, normalise(st, ty_out)),)
        st.add_eq(t_len(legt) - t_len(ty_out))
    return [(st, v, None)]
