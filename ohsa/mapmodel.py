"""A model of std's hash / B-tree maps with natural-number keys and values, as far as counting code uses them
(`*m.entry(k).or_insert(0) += 1`, `keys`, `values`, iteration, `m[&k]`).

A map is a record of two sequences: `touched`, the keys passed to `entry`, in order and with repeats (the key set is its
set of distinct values), and `dense`, the values as a conceptual array over the whole key range (absent keys read as the
`or_insert` default).  `entry(k).or_insert(d)` is then a `&mut` to `dense[k]`, so the counting loop is the same indexed
in-place update the fold idioms already summarise (`dense = bincount(touched)`).  Iteration order of a HashMap is an
open choice: `keys()` is the term hmkeys(T) — the distinct values of T in an unspecified order — and `values()` /
`iter()` read `dense` along the SAME term; a BTreeMap iterates in ascending key order, spkeys(T).  Sorting hmkeys(T)
gives spkeys(T)."""
from poly import Poly, as_poly, show_poly
from values import *

HASH = "std::collections::HashMap"
BTREE = "std::collections::BTreeMap"
CAP = Poly.atom(("usize-range",))         # one past the largest key: every usize key is below it


def is_map(v):
    return isinstance(v, VRec) and v.ty in (HASH, BTREE)


def new_map(ty):
    return VRec(ty, {"touched": VSeq(EMPTY), "dense": VSeq(("fill", Poly.const(0), CAP))})


def keys_term(m):
    T = m.f["touched"].t
    return ("spkeys", T) if m.ty == BTREE else ("hmkeys", T)


def _deref(I, st, v):
    while isinstance(v, VMutRef):
        v = I.read_place(st, v.place)
    return v


def h_new(ty):
    def h(I, st, fr, e, c, a):
        return [(st, new_map(ty), None)]
    return h


def h_entry(I, st, fr, e, c, a):
    recv, k = a[0], _deref(I, st, a[1])
    if not isinstance(recv, VMutRef) or not isinstance(k, VNat):
        raise NotImplementedError("map entry")
    m = I.read_place(st, recv.place)
    if not is_map(m):
        raise NotImplementedError("entry on " + type(m).__name__)
    return [(st, VRec("std::collections::Entry", {"map": recv, "key": k}), None)]


def _or_insert(I, st, fr, e, ent, d):
    if not (isinstance(ent, VRec) and ent.ty == "std::collections::Entry"):
        raise NotImplementedError("or_insert on " + type(ent).__name__)
    if not (isinstance(d, VNat) and d.p == Poly.const(0)):
        raise NotImplementedError("map default other than 0")
    recv, k = ent.f["map"], ent.f["key"]
    place = recv.place
    m = I.read_place(st, place)
    st.add_ge(CAP - k.p - 1)
    T = m.f["touched"].t
    I.write_place(st, (place[0], place[1] + ("touched",)), VSeq(mk_concat([T, ("fill", k.p, Poly.const(1))])))
    return [(st, VMutRef((place[0], place[1] + ("dense", ("idx", k.p)))), None)]


def h_or_insert(I, st, fr, e, c, a):
    return _or_insert(I, st, fr, e, _deref(I, st, a[0]), _deref(I, st, a[1]))


def h_or_default(I, st, fr, e, c, a):
    return _or_insert(I, st, fr, e, _deref(I, st, a[0]), VNat(Poly.const(0)))


def h_keys(I, st, fr, e, c, a):
    m = _deref(I, st, a[0])
    if not is_map(m):
        raise NotImplementedError("keys")
    k = keys_term(m)
    term_facts_keys(st, k)
    return [(st, VSeq(k), None)]


def term_facts_keys(st, k):
    T = k[1]
    n = t_len(k)
    st.add_ge(t_len(T) - n)
    if st.ge(t_len(T), 1):
        st.add_ge(n - 1)
    for b in ubs(st, T):
        st.add_bound(k, b)


def h_values(I, st, fr, e, c, a):
    m = _deref(I, st, a[0])
    if not is_map(m):
        raise NotImplementedError("values")
    k = keys_term(m)
    term_facts_keys(st, k)
    return [(st, VSeq(mk_gather(st, m.f["dense"].t, k)), None)]


def h_iter(I, st, fr, e, c, a):
    m = _deref(I, st, a[0])
    if not is_map(m):
        return None
    k = keys_term(m)
    term_facts_keys(st, k)
    return [(st, VSeq(("zip", k, mk_gather(st, m.f["dense"].t, k))), None)]


def h_len(I, st, fr, e, c, a):
    m = _deref(I, st, a[0])
    k = keys_term(m)
    term_facts_keys(st, k)
    return [(st, VNat(t_len(k)), None)]


def _drawn_from(st, X, T, depth=0):
    """Every element of X is an element of T (a key listing, a re-ordering, a sub-sequence of T, or T itself)."""
    if depth > 6:
        return False
    if terms_equal(st, X, T):
        return True
    if X[0] in ("hmkeys", "spkeys", "dedup", "slice", "sel", "lfilter"):
        return _drawn_from(st, X[1], T, depth + 1)
    if X[0] == "gather":
        return _drawn_from(st, X[1], T, depth + 1)
    if X[0] == "concat":
        return all(_drawn_from(st, p_, T, depth + 1) for p_ in X[1:])
    return False


def index(I, st, fr, e, m, key):
    """m[&key]: panics when the key is absent — the key must be (an element of) a key listing of this very map."""
    T = m.f["touched"].t
    ok = False
    for a_ in key.p.atoms():
        if isinstance(a_, tuple) and a_ and a_[0] in ("elem", "get") and isinstance(a_[1], tuple) \
                and key.p == Poly.atom(a_) and _drawn_from(st, a_[1], T):
            ok = True
    I.require(st, fr, e, "PRE", "map index: key present", f"{show_poly(key.p)} is a key of the map", ok)
    st.add_ge(CAP - key.p - 1)           # every usize is below the end of the key range
    import lax_model
    return lax_model.index_expr(I, st, fr, e, m.f["dense"], key)
