#!/usr/bin/env python3
"""Writes /verif/MANIFEST.json from the property table (kept in one place: properties.py)."""
import json
import os
import properties

VERIF = os.path.dirname(os.path.dirname(os.path.abspath(__file__)))

TECH = {
    "C01": "abstract interpretation with symbolic array terms over the typed HIR; panic paths proved infeasible; FIBRE rule; ENS term equalities incl. the gluing clause (every leg, incidence list and node label of the composite is the operand's mapped through the coequalizer of the boundary legs)",
    "C02": "term-level ENS: result fields equal juxtaposition/shift terms (strict and lax), in-place siblings against the same spec",
    "C04": "ENS (leg provenance as term equality) + ACC/REJ acceptance conditions of spider constructors",
    "C05": "struct-invariant obligations (INV) at every public return + ACC/REJ of checked constructors + non_exhaustive witness",
    "C06": "INV_FF + ACC/REJ exactness of partial operations + panic-path infeasibility (own LP prover)",
    "C07": "sibling agreement: each VecArray primitive is interpreted symbolically (loops summarised exactly by fold idioms) and its result must be term-equal to the array contract's transfer function on the same arguments; trait default methods against the contract axioms (to_range exact per Bound form); coverage rule VECCOVER",
    "C08": "INV_IC + ENS segment counts + iterator remaining-length/advance specs",
    "C09": "post-state term equalities on Ok and Err outcomes (atomicity), cover of every node reference, DELEG rule",
    "C10": "same term-level spec for pure and in-place operations; ACC/REJ of compose/lax_compose; INV of conversions",
    "C11": "post-state specs with frame conditions for builders; structural DELETE rules (guard/pair/cover); serde facts + README keys",
    "C12": "typing as label-array term equality under documented functor contracts (FNAT rule), all glue unwraps infeasible",
    "C13": "ACC/REJ: Some implies no pending unification and None only with pending unifications (totality under the functor contract); INV of result and witness; witness content as term equalities (segment sizes, labels of the selected nodes); Option propagation (no panic path)",
    "C14": "typing of map_object/map_operations/adapt as ordered label-array terms under A_F1/A_F2/A_O",
    "C15": "panic-path infeasibility incl. Houdini loop invariants for kahn; one-iteration step specification of kahn's loop as term equalities (checked premise of the trusted lemmas); result shape ENS; DEP",
    "C16": "ACC/REJ on the unvisited guard; panic-path infeasibility under A_E; call-site obligation that apply receives labels and inputs of one selection; kahn step specification; DEP",
    "C17": "panic-path infeasibility (array subtraction is an obligation in debug and release); exact boolean spec of is_monogamous / is_injective / is_discrete (result formula equivalent to the definition on every path); kahn step specification; DEP",
    "C18": "ACC (all four naturality equalities entailed on Ok) + REJ per error variant; is_convex_subgraph true only on paths that established both injectivity facts; totality of convexity loop and its frontier step condition; callee-level role spec of the adjacency construction (provenance); DEP",
    "C19": "shapecheck of Var/operator/forget code with a heap-handle model of Rc<RefCell>; path-fact specs of Forget / ForgetMonogamous::map_operation (removal only after the var test and the uniformity decision over source and target labels; kept operations are singletons of their own label; one merged node); REFCELL and SELFCMP structural rules",
    "C20": "type-level witness (foreign ArrayKind type-checks) + genericity audit + compile_fail,E0639 witnesses; obligations of the consumers of the backend's open choices proved against the array contract alone (uninterpreted numbering / tie order / filler)",
}

PREMISES = ("; each check also contains the obligations of its premises: the public operations its entry points call "
            "directly (Vec array primitives included, except for C20)")

NOTE = ("Trusted: rustc name/type resolution (facts exported by the ohx rustc_private driver from /repo's working tree); "
        "the array contract axioms transcribed from src/array/traits.rs (the Vec backend is checked against them under C07, except "
        "connected_components and sparse_bincount); "
        "documented contracts of user-supplied code (A_* assumptions listed in evidence); the term rules and the "
        "TRUSTED lemmas listed in evidence; no usize overflow of size additions. Arguments are assumed well-formed.")


def main():
    checks = []
    for pid in sorted(properties.PROPS):
        sp = properties.PROPS[pid]
        cat = sp["level"]
        if pid == "C06":
            cat = "other"
        checks.append({
            "property_id": pid,
            "quick_cmd": f"./check {pid} --tier quick",
            "thorough_cmd": f"./check {pid} --tier thorough",
            "evidence_file": f"/verif/evidence/{pid}.json",
            "replay_cmd_template": f"./check {pid} --replay {{path}}",
            "engine": "ohx+ohsa",
            "level_claimed": {
                "category": cat,
                "text": ("Static analysis, universally quantified over inputs (symbolic sizes, no input bound): " + sp["clause"] +
                         ". Decides these clauses, not the behavioural property as a whole (see DESIGN.md §7)."),
                "design_ref": "DESIGN.md §7 " + pid,
            },
            "level_note": NOTE,
            "technique": TECH[pid] + PREMISES,
        })
    man = {
        "version": 1,
        "setup_cmd": "cd /verif/ohx && CARGO_NET_OFFLINE=true cargo build --release --offline && cd /verif && python3 -m compileall -q ohsa",
        "hooks": {
            "guard": "none",
            "enable": "no hooks: the analysis reads the type-checked program through a rustc driver (RUSTC_WORKSPACE_WRAPPER); /repo carries only the five unguarded `fix:` commits",
            "baseline_off_cmd": "cd /repo && cargo test --workspace --no-fail-fast --offline",
            "source_commits": [],
            "add_only": True,
        },
        "engines": [
            {"name": "ohx", "path": "/verif/ohx", "serves_properties": sorted(properties.PROPS),
             "kind_free_text": "rustc_private driver exporting typed HIR, resolved callees, struct/impl facts, MIR edges as JSON"},
            {"name": "ohsa", "path": "/verif/ohsa", "serves_properties": sorted(properties.PROPS),
             "kind_free_text": "abstract interpreter with symbolic array terms + own LP prover + spec oracle + structural rules + type-level witnesses"},
        ],
        "checks": checks,
        "not_applicable": [{"property_id": k, "reason": v} for k, v in sorted(properties.NOT_APPLICABLE.items())],
        "notes": "Exit 0 = held; 1 = VIOLATION line(s); 2 = ANALYSIS-ERROR (not decided). Known findings: KNOWN_FINDINGS.txt.",
    }
    with open(os.path.join(VERIF, "MANIFEST.json"), "w") as fh:
        json.dump(man, fh, indent=1)
    print("wrote MANIFEST.json with", len(checks), "checks")


if __name__ == "__main__":
    main()
