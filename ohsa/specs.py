"""Oracle tables written from the property statements and the crate documentation:
raw parameters of checked constructors, documented preconditions, acceptance conditions,
declared result shapes (ENS)."""
from poly import Poly, as_poly, show_poly
from values import *
import inv

# parameters that are NOT assumed to satisfy their own invariant (checked constructors receive raw data)
RAW = {
    "IndexedCoproduct::<K, F>::validate": {"self"},
    "IndexedCoproduct::<K, F>::new": set(),
    "operations::Operations::<K, O, A>::validate": {"self"},
    "strict::hypergraph::object::Hypergraph::<K, O, A>::validate": {"self"},
    "strict::open_hypergraph::arrow::OpenHypergraph::<K, O, A>::validate": {"self"},
    "strict::hypergraph::arrow::HypergraphArrow::<K, O, A>::validate": {"self"},
}


def raw_params(path):
    for k, v in RAW.items():
        if path.endswith(k):
            return v
    return set()


def raw_field(ty, field):
    """Fields of a raw value that are themselves raw (not assumed well-formed)."""
    if ty == inv.SOH and field == "h":
        return True   # OpenHypergraph::validate validates the hypergraph itself
    return False


SKIP_INV = {
    # the renumbered identifiers' range depends on the values written into the renumber map inside a
    # loop (Some(new) < |surviving nodes|): not within the invariant templates; decided by the
    # structural rules COVER / FRESH / GUARD / PAIR instead (DESIGN §7, C11)
    "Hypergraph::<O, A>::delete_nodes_witness", "Hypergraph::<O, A>::delete_nodes",
    "OpenHypergraph::<O, A>::delete_nodes",
}


def skip_inv(path):
    return any(path.endswith(s) for s in SKIP_INV)


def after_entry(sc, res):
    import spec_checks
    spec_checks.run(sc, res)
    if res.get("vec_ref") is not None:
        spec_checks.vec_conformance(sc, res)


# Documented preconditions: the only `requires` an entry point may keep (DESIGN appendix D).
# (function path suffix, macro) -> where it is documented
DOCUMENTED_REQUIRES = {
    ("strict::graph::dense_relative_indegree", "assert_eq!"): "comment: adjacency.len() = f.target()",
    ("strict::graph::sparse_relative_indegree", "assert_eq!"): "comment: a.len() = f.target()",
    ("NaturalArray<array::vec::vec_array::VecKind>>::scatter_sub_assign", "-"):
        "array contract: scatter_sub_assign must not underflow (natural numbers)",
}


# Documented panics that are part of the stated behaviour wherever they are reached
DOCUMENTED_PANICS = {
    ("lax::hypergraph::Hypergraph::<O, A>::delete_edges", "assert!"):
        "doc: 'Panics if any edge id is out of bounds'",
    ("lax::hypergraph::Hypergraph::<O, A>::delete_nodes_witness", "assert!"):
        "doc: 'Panics if any node id is out of bounds'",
    ("lax::open_hypergraph::OpenHypergraph::<O, A>::to_strict", "unwrap on Err"):
        "to_strict: pending unifications are label-consistent (C10 quantifier; doc: 'any valid lax::Hypergraph must be quotientable')",
}


PANIC_FORMS = ("assert!", "assert_eq!", "assert_ne!", "panic!", "unreachable!")


def documented_panic(fn_path, what, st=None):
    """A panic the documentation of a public operation announces.  The out-of-bounds panics of the deletion routines are
    recognised by what the path established — an element of the id list is not below the length it indexes — in
    whatever form the check is written (`assert!`, `if .. { panic!(..) }`); any other panic there stays an obligation."""
    for (suffix, w), why in DOCUMENTED_PANICS.items():
        if not fn_path.endswith(suffix):
            continue
        if what == w:
            if "out of bounds" in why and st is not None and not _out_of_bounds_path(st):
                continue
            return why
        if "out of bounds" in why and what in PANIC_FORMS and st is not None and _out_of_bounds_path(st):
            return why
    return None


def _out_of_bounds_path(st):
    for (k, p) in st.lin.facts:
        if k != "ge":
            continue
        pos = [a for m, c in p.t.items() if c > 0 and len(m) == 1 for a in m if isinstance(a, tuple) and a and a[0] in ("elem", "get")]
        neg = [a for m, c in p.t.items() if c < 0 and len(m) == 1 for a in m if isinstance(a, tuple) and a and a[0] == "len"]
        if pos and neg:
            return True
    return False


def documented_require(fn_path, what):
    for (suffix, mac), why in DOCUMENTED_REQUIRES.items():
        if fn_path.endswith(suffix) and what == mac:
            return why
    return None


# Documented preconditions on *arguments* of an entry point (assumed when it is analysed as an
# entry; at call sites inside the crate they must follow from the context).
def entry_assumptions(fn_path, names, args, st, sc=None, fr0=None):
    """names: parameter names; args: symbolic argument values."""
    d = dict(zip(names, args))
    out = []

    def adjacency(v):
        # "adjacency : X -> X*": values index the same set that the segments are indexed by
        st.add_eq(v.f["values"].f["target"].p - t_len(v.f["sources"].f["table"].t))
        out.append("adjacency: values.target == len (relation on one set)")
    for suffix, pname in (("strict::graph::kahn", "adjacency"), ("strict::graph::indegree", "adjacency"),
                          ("strict::graph::dense_relative_indegree", "adjacency"),
                          ("strict::graph::sparse_relative_indegree", "a"),
                          ("strict::hypergraph::arrow::successors", "adjacency")):
        if fn_path.endswith(suffix):
            adjacency(d[pname])
    # documented preconditions of public operations (stated as assertions in the code): assumed at the entry point,
    # wherever the assertion itself lives (in the body or in a helper it delegates to)
    if fn_path.endswith("strict::hypergraph::object::Hypergraph::<K, O, A>::in_degree") or \
            fn_path.endswith("strict::hypergraph::object::Hypergraph::<K, O, A>::out_degree"):
        st.add_ge(inv.values_len(d["self"].f["w"]) - d["node"].p - 1)
        out.append("in/out_degree(node): node < |w| (assertion message)")
    if fn_path.endswith("IndexedCoproduct::<K, F>::flatmap_sources"):
        vals = d["self"].f["values"]
        n = t_len(vals.f["table"].t) if vals.ty == inv.FF else t_len(vals.f["0"].t)
        st.add_eq(n - t_len(d["other"].f["sources"].f["table"].t))
        out.append("flatmap_sources(other): |self.values| = other.len() (comment + assertion)")
    if fn_path.endswith("IndexedCoproduct::<K, finite_function::arrow::FiniteFunction<K>>::flatmap"):
        st.add_eq(d["self"].f["values"].f["target"].p - t_len(d["other"].f["sources"].f["table"].t))
        out.append("flatmap(other): self.values.target = other.len() (doc types A→B*, B→C*; assertion)")
    if fn_path.endswith("NaturalArray::segmented_sum"):
        st.add_eq(t_sum(d["self"].t) - t_len(d["x"].t))
        out.append("# Panics: when self.sum() != x.len()")
    if fn_path.endswith("OrdArray::sort_by"):
        st.add_eq(t_len(d["self"].t) - t_len(d["key"].t))
        out.append("keys: one per element")
    if fn_path.endswith("strict::hypergraph::arrow::successors"):
        st.add_bound(d["frontier"].t, t_len(d["adjacency"].f["sources"].f["table"].t))
        out.append("frontier: node indices")
    n_nodes = None
    if "self" in d and isinstance(d["self"], VRec) and d["self"].ty in (inv.LH, inv.LOH):
        h = d["self"] if d["self"].ty == inv.LH else d["self"].f["hypergraph"]
        n_nodes = t_len(h.f["nodes"].t)
        n_edges = t_len(h.f["edges"].t)
        name = fn_path.split("::")[-1]
        if name == "unify":
            st.add_ge(n_nodes - d["v"].p - 1)
            st.add_ge(n_nodes - d["w"].p - 1)
            out.append("unify(v, w): node identifiers are valid (returned by the builder, C11)")
        if name in ("add_edge_source", "add_edge_target"):
            st.add_ge(n_edges - d["edge_id"].p - 1)
            out.append("add_edge_*: the edge identifier is valid (doc: panics if out of bounds)")
    if fn_path.endswith("strict::eval::eval"):
        st.add_eq(t_len(d["s"].t) - t_len(d["f"].f["s"].f["table"].t))
        out.append("eval(f, s, apply): one input value per source position (doc: 'specified input values s')")
    if fn_path.endswith("optic::Optic::<F, R, K, O1, A1, O2, A2>::adapt"):
        # adapt(c, a, b): c is an optic image, i.e. c : map_object(a) -> map_object(b)
        I = sc.I
        mo = None
        for p, f in I.facts.fns.items():
            if p.endswith("Functor<K, O1, A1, O2, A2>>::map_object") and "optic::Optic<" in p:
                mo = f
        n0 = len(I.obligations)
        c = d["c"]
        w = c.f["h"].f["w"].f["0"].t
        for leg, obj in (("s", d["a"]), ("t", d["b"])):
            outs = I.call_fn(mo, [d["self"], obj], st, fr0, {"sp": "entry-assumption", "k": "entry"})
            for (s2, v, cc) in outs[:1]:
                ty = v.f["values"].f["0"].t
                legt = ("gather", w, c.f[leg].f["table"].t)
                st.teq = st.teq + ((legt, normalise(st, ty)),)
                st.add_eq(t_len(legt) - t_len(ty))
        del I.obligations[n0:]
        out.append("c : Optic::map_object(a) -> Optic::map_object(b) (c is an optic image of a diagram a -> b)")
    return out


def override_args(fn_path, names, args, st):
    """Documented argument conditions that change the *shape* of a symbolic argument."""
    d = dict(zip(names, args))
    name = fn_path.split("::")[-1]
    if name == "new_edge" and "interface" in d and "self" in d:
        # `interface: impl Into<Hyperedge>` — a hyperedge over valid node identifiers
        import lax_model
        slf = d["self"]
        from values import VMutRef
        if isinstance(slf, VMutRef):
            slf = st.env[slf.place[0]]
        h = slf if slf.ty == inv.LH else slf.f["hypergraph"]
        n = t_len(h.f["nodes"].t)
        e = VRec(inv.LEDGE, {"sources": VSeq(leaf("interface.sources")), "targets": VSeq(leaf("interface.targets"))})
        st.add_bound(leaf("interface.sources"), n)
        st.add_bound(leaf("interface.targets"), n)
        args[names.index("interface")] = e
        return ["new_edge(x, interface): the interface mentions valid node identifiers (C11)"]
    return []
