"""Oracle tables written from the property statements and the crate documentation:
raw parameters of checked constructors, documented preconditions, acceptance conditions,
declared result shapes (ENS)."""
from poly import Poly, as_poly, show_poly
from values import *
import inv

# parameters that are NOT assumed to satisfy their own invariant (checked constructors receive raw data)
RAW = {
    "IndexedCoproduct::<K, F>::validate": {"self"},
    "IndexedCoproduct::<K, F>::new": set(),
    "operations::Operations::<K, O, A>::validate": {"self"},
    "strict::hypergraph::object::Hypergraph::<K, O, A>::validate": {"self"},
    "strict::open_hypergraph::arrow::OpenHypergraph::<K, O, A>::validate": {"self"},
    "strict::hypergraph::arrow::HypergraphArrow::<K, O, A>::validate": {"self"},
}


def raw_params(path):
    for k, v in RAW.items():
        if path.endswith(k):
            return v
    return set()


def raw_field(ty, field):
    """Fields of a raw value that are themselves raw (not assumed well-formed)."""
    if ty == inv.SOH and field == "h":
        return True   # OpenHypergraph::validate validates the hypergraph itself
    return False


def skip_inv(path):
    return False


def after_entry(sc, res):
    pass


# Documented preconditions: the only `requires` an entry point may keep (DESIGN appendix D).
# (function path suffix, macro) -> where it is documented
DOCUMENTED_REQUIRES = {
    ("IndexedCoproduct::<K, F>::flatmap_sources", "assert_eq!"): "comment + assert: |self.values| = other.len()",
    ("IndexedCoproduct::<K, finite_function::arrow::FiniteFunction<K>>::flatmap", "assert_eq!"):
        "assert; doc types A→B*, B→C*: self.values.target = other.len()",
    ("strict::hypergraph::object::Hypergraph::<K, O, A>::in_degree", "assert!"): "assertion message: node < |w|",
    ("strict::hypergraph::object::Hypergraph::<K, O, A>::out_degree", "assert!"): "assertion message: node < |w|",
    ("strict::graph::dense_relative_indegree", "assert_eq!"): "comment: adjacency.len() = f.target()",
    ("strict::graph::sparse_relative_indegree", "assert_eq!"): "comment: a.len() = f.target()",
}


def documented_require(fn_path, what):
    for (suffix, mac), why in DOCUMENTED_REQUIRES.items():
        if fn_path.endswith(suffix) and what == mac:
            return why
    return None


# Documented preconditions on *arguments* of an entry point (assumed when it is analysed as an
# entry; at call sites inside the crate they must follow from the context).
def entry_assumptions(fn_path, names, args, st):
    """names: parameter names; args: symbolic argument values."""
    d = dict(zip(names, args))
    out = []

    def adjacency(v):
        # "adjacency : X -> X*": values index the same set that the segments are indexed by
        st.add_eq(v.f["values"].f["target"].p - t_len(v.f["sources"].f["table"].t))
        out.append("adjacency: values.target == len (relation on one set)")
    for suffix, pname in (("strict::graph::kahn", "adjacency"), ("strict::graph::indegree", "adjacency"),
                          ("strict::graph::dense_relative_indegree", "adjacency"),
                          ("strict::graph::sparse_relative_indegree", "a"),
                          ("strict::hypergraph::arrow::successors", "adjacency")):
        if fn_path.endswith(suffix):
            adjacency(d[pname])
    if fn_path.endswith("NaturalArray::segmented_sum"):
        st.add_eq(t_sum(d["self"].t) - t_len(d["x"].t))
        out.append("# Panics: when self.sum() != x.len()")
    if fn_path.endswith("OrdArray::sort_by"):
        st.add_eq(t_len(d["self"].t) - t_len(d["key"].t))
        out.append("keys: one per element")
    if fn_path.endswith("strict::hypergraph::arrow::successors"):
        st.add_bound(d["frontier"].t, t_len(d["adjacency"].f["sources"].f["table"].t))
        out.append("frontier: node indices")
    if fn_path.endswith("strict::graph::filter") or fn_path.endswith("strict::graph::filter_by_dense"):
        pass
    return out
