"""Inference rules over array terms that go beyond linear arithmetic.  Each rule is a small
mathematical lemma about the array contract with *checked* structural premises; the two
entries marked TRUSTED are accepted on their stated reason only.  All uses are counted and
printed in evidence (trusted base)."""
from poly import Poly, as_poly
from values import *

USES = {}

RULES = {
    "FNAT": "A_F1: map_object acts element-wise: Fvals(w)∘inj(Fsizes(w), idx) ≡ Fvals(w∘idx), Fsizes(w)∘idx ≡ Fsizes(w∘idx)",
    "FIBRE": "q = connected_components(a,b,n), len(w)=n and w∘a ≡ w∘b  ⇒  gather(scatter(w,q,Q),q) ≡ w "
             "(labels agreeing on generating pairs are constant on components)",
    "INJ": "k = s∘a, p = cumsum(s): every element of segmented_arange(k) + repeat(k, p∘a) is < sum(s) "
           "(offset within a segment + segment start)",
    "TRANSPOSE": "i = arange(0,a·b): (i mod a)·b + (i div a) < a·b",
    "MONO-DIFF": "p monotone (a cumulative sum): p[1..] - p[..n-1] does not underflow, also after gathering "
                 "both through the same monotone cumulative sum",
    "SEG-START": "i = arange(0,sum k), r = repeat(k, cumsum(k)[..n]): r[j] <= i[j] (segment start <= position)",
    "FILL-LE": "fill(c,n) <= x elementwise when every element of x is >= c",
    "KAHN-TRUSTED": "TRUSTED: in kahn, the counts of edges from the current frontier into a node never exceed "
                    "its remaining in-degree (loop invariant: indegree[v] = number of incoming edges from unvisited nodes)",
    "LAYER-TRUSTED": "TRUSTED: kahn assigns layer numbers < number of nodes (every iteration with a non-empty "
                     "frontier visits at least one previously unvisited node)",
    "LAXFUNCTOR-ARITY-TRUSTED": "TRUSTED (consequence of the user contract A_L): the tensor of the user functor's operation "
                                "images has Σ_e Σ_{v∈sources(e)} |F(label v)| sources and likewise targets; used only to excuse the "
                                "absent results of try_define_map_arrow / map_arrow_witness whose lax composition arity check fails",
    "CC-REFL": "connected_components(a', b', n) where (a', b') are the pairs of (a, b) passing a filter whose negation forces "
               "v == w (only reflexive pairs are dropped) ≡ connected_components(a, b, n)",
    "PERM-SUM": "π a permutation of 0..len(x) (identity, argsort, matrix transposition): sum(x∘π) = sum(x)",
    "ID-GATHER": "gather(x, arange(0,len x)) ≡ x",
}


def extra_ubs(st, t):
    out = []
    if t[0] == "add":
        a, b = t[1], t[2]
        for r, z in ((a, b), (b, a)):
            if r[0] == "segarange" and z[0] == "repeat" and z[1] == r[1]:
                k = r[1]
                vals = z[2]
                # vals = gather(cumsum(s), a), k = gather(s, a)
                if vals[0] == "gather" and vals[1][0] == "cumsum" and k[0] == "gather" \
                        and k[1] == vals[1][1] and k[2] == vals[2]:
                    out.append(("INJ", t_sum(k[1])))
    if t[0] == "mulcadd":
        r, b, q = t[1], t[2], t[3]
        if r[0] == "rem" and q[0] == "quot" and r[1] == q[1] and r[2] == q[2]:
            i, a = r[1], r[2]
            if i[0] == "arange" and not i[1].t:
                n = i[2]
                if st.eq(n, as_poly(a) * as_poly(b)):
                    out.append(("TRANSPOSE", n))
    return out


def in_chain(fr, *suffixes):
    """Is the current frame, or a caller of it, one of the named functions?  (Lemmas and documented panics belong to a
    public operation, wherever its code lives: in its own body or in a private helper it delegates to.)"""
    f = fr
    while f is not None:
        if f.fn is not None and any(f.fn["path"].endswith(s) for s in suffixes):
            return True
        f = f.parent
    return False


def trusted_sub(I, st, fr, a, b):
    """COUNT-TRUSTED: `count - remove_count` in the deletion routines."""
    # (the former lemma COUNT-TRUSTED — remove_count <= count in the deletion routines, recognised by the variable's
    # name — is gone: the loop invariant `counter ∓ #true(flags) = const` is inferred, see loops.py `count_flags`)
    return None


def _kahn_var(t, role):
    """Is t the loop-carried variable that plays `role` in a loop recognised as kahn's (loop_specs.KAHN_ROLES: roles are
    decided from the values at loop entry, not from the names of the locals)?"""
    import loop_specs
    for roles in loop_specs.KAHN_ROLES.values():
        v = roles.get(role)
        if isinstance(v, VSeq) and v.t == t:
            return True
        if isinstance(v, VNat) and isinstance(t, Poly) and v.p == t:
            return True
    return False


def trusted_bound(st, t, B):
    """LAYER-TRUSTED: the layer numbers written by kahn are < number of nodes."""
    if _kahn_var(t, "order"):
        if st.ge(B, t_len(t)):
            return "LAYER-TRUSTED"
    # the same array after one more step of the loop (order[frontier := depth]), e.g. when the loop exits after its body
    if t[0] == "sac" and _kahn_var(t[1], "order") and _kahn_var(t[2], "frontier"):
        if _kahn_var(as_poly(t[3]), "depth") and st.ge(B, t_len(t[1])):
            return "LAYER-TRUSTED"
    return None


def refute_tne(I, st, a, b):
    """Try to prove a ≡ b by rule FIBRE. Returns the rule name or None."""
    for x, w in ((a, b), (b, a)):
        x = normalise(st, x)
        if x[0] == "gather" and x[1][0] == "scatter":
            sc, q = x[1], x[2]
            if sc[2] != q:
                continue
            w0 = sc[1]
            if not terms_equal(st, w0, w):
                continue
            if q[0] != "cc":
                continue
            s_, t_, n = q[1], q[2], q[3]
            if not st.eq(t_len(w0), n):
                continue
            lhs = mk_gather(st, normalise(st, w0), normalise(st, s_))
            rhs = mk_gather(st, normalise(st, w0), normalise(st, t_))
            if terms_equal(st, lhs, rhs):
                return "FIBRE"
    return None


def prove_elem_le(I, st, small, big):
    """Prove small[i] <= big[i] for all i. Returns rule name or None."""
    if st.eq(t_len(small), 0):
        return "EMPTY"
    # FILL-LE: needs lower bounds, which the domain does not track, except for trivial c = 0
    if small[0] == "fill" and not as_poly(small[1]).t:
        return "FILL-LE"
    # MONO-DIFF: big = gather(M, slice(P,1,L)), small = gather(M, slice(P,0,L-1)), M and P cumulative sums
    if big[0] == "gather" and small[0] == "gather" and big[1] == small[1] and big[1][0] == "cumsum":
        ib, is_ = big[2], small[2]
        if ib[0] == "slice" and is_[0] == "slice" and ib[1] == is_[1] and ib[1][0] == "cumsum":
            if st.eq(ib[2], is_[2] + 1) and st.eq(ib[3], is_[3] + 1):
                return "MONO-DIFF"
    # SEG-START
    if big[0] == "arange" and not big[1].t and small[0] == "repeat":
        k, vals = small[1], small[2]
        if vals[0] == "slice" and vals[1] == ("cumsum", k) and not vals[2].t and st.eq(vals[3], t_len(k)) \
                and st.eq(big[2], t_sum(k)):
            return "SEG-START"
    return None


def prove_scatter_sub(I, st, fr, x, ixs, rhs):
    if ixs[0] == "spkeys" and rhs[0] == "spcounts" and ixs[1] == rhs[1]:
        if getattr(I, "kahn_body_depth", 0) > 0:      # inside the body of a loop with kahn's signature (loop_specs)
            I.lemma_uses["KAHN-TRUSTED"] = I.lemma_uses.get("KAHN-TRUSTED", 0) + 1
            return "KAHN-TRUSTED"
    return None
