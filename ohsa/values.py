"""Abstract values, symbolic array terms, the fact store and the term normaliser.

Array *contents* are never represented: an array is a symbolic term built from the array
contract's operations over opaque leaves; only its length, sum and exclusive upper bounds
are reasoned about, plus equalities between terms that the program itself establishes.
"""
from poly import Poly, Lin, as_poly, entails, infeasible, show_poly, show_atom


# ---------------------------------------------------------------------------------------------
# Values

class V:
    pass


class VNat(V):
    __slots__ = ("p",)

    def __init__(self, p):
        self.p = as_poly(p)

    def __repr__(self):
        return f"Nat({show_poly(self.p)})"


class VBool(V):
    """f is a formula: ('true',) ('false',) ('cmp', kind, Poly) ('and', a, b) ('or', a, b)
    ('not', a) ('teq', t1, t2) ('unk', key)"""
    __slots__ = ("f",)

    def __init__(self, f):
        self.f = f

    def __repr__(self):
        return f"Bool({show_formula(self.f)})"


class VSeq(V):
    __slots__ = ("t",)

    def __init__(self, t):
        self.t = t

    def __repr__(self):
        return f"Seq({show_term(self.t)})"


class VRec(V):
    __slots__ = ("ty", "f")

    def __init__(self, ty, fields):
        self.ty = ty
        self.f = fields

    def with_field(self, name, v):
        d = dict(self.f)
        d[name] = v
        return VRec(self.ty, d)

    def __repr__(self):
        return f"{self.ty}{{" + ", ".join(f"{k}: {v!r}" for k, v in self.f.items()) + "}"


class VTup(V):
    __slots__ = ("items",)

    def __init__(self, items):
        self.items = tuple(items)

    def __repr__(self):
        return "(" + ", ".join(repr(x) for x in self.items) + ")"


class VEnum(V):
    __slots__ = ("enum", "variant", "payload")

    def __init__(self, enum, variant, payload=()):
        self.enum = enum
        self.variant = variant
        self.payload = tuple(payload)

    def __repr__(self):
        return f"{self.variant}(" + ", ".join(repr(x) for x in self.payload) + ")"


class VClosure(V):
    __slots__ = ("node", "frame")

    def __init__(self, node, frame):
        self.node = node
        self.frame = frame

    def __repr__(self):
        return "Closure"


class VMutRef(V):
    __slots__ = ("place",)

    def __init__(self, place):
        self.place = place  # (root key, path tuple)

    def __repr__(self):
        return f"&mut {self.place}"


class VFn(V):
    """A function item used as a value (e.g. `.map(NodeId)`, `.map(Some)`)."""
    __slots__ = ("kind", "path", "callee")

    def __init__(self, kind, path, callee=None):
        self.kind = kind
        self.path = path
        self.callee = callee

    def __repr__(self):
        return f"Fn({self.path})"


class VUser(V):
    """An opaque user-supplied object (functor, closure parameter, label value...)."""
    __slots__ = ("key",)

    def __init__(self, key):
        self.key = key

    def __repr__(self):
        return f"User({self.key})"


class VUnit(V):
    def __repr__(self):
        return "()"


class VTop(V):
    """Unknown value (havoc)."""
    __slots__ = ("why",)

    def __init__(self, why=""):
        self.why = why

    def __repr__(self):
        return f"Top({self.why})"


class VRange(V):
    __slots__ = ("lo", "hi", "incl")

    def __init__(self, lo, hi, incl=False):
        self.lo = lo  # VNat or None
        self.hi = hi
        self.incl = incl

    def __repr__(self):
        return f"Range({self.lo}..{'=' if self.incl else ''}{self.hi})"


UNIT = VUnit()
TRUE = VBool(("true",))
FALSE = VBool(("false",))


def some(v):
    return VEnum("Option", "Some", (v,))


NONE = VEnum("Option", "None", ())


def ok(v):
    return VEnum("Result", "Ok", (v,))


def err(v):
    return VEnum("Result", "Err", (v,))


# ---------------------------------------------------------------------------------------------
# Terms

def leaf(name):
    return ("v", name)


EMPTY = ("empty",)


def show_term(t, depth=0):
    if isinstance(t, Poly):
        return show_poly(t)
    if not isinstance(t, tuple):
        return str(t)
    if not t:
        return "()"
    if not isinstance(t[0], str):
        return "(" + ", ".join(show_term(x, depth + 1) for x in t) + ")"
    if t[0] == "v":
        return str(t[1])
    if depth > 6:
        return t[0] + "(…)"
    return t[0] + "(" + ", ".join(show_term(x, depth + 1) for x in t[1:]) + ")"


def show_formula(f):
    k = f[0]
    if k in ("true", "false"):
        return k
    if k == "cmp":
        op = {"ge": ">=", "eq": "==", "ne": "!="}[f[1]]
        return f"{show_poly(f[2])} {op} 0"
    if k in ("and", "or"):
        return "(" + show_formula(f[1]) + (" && " if k == "and" else " || ") + show_formula(f[2]) + ")"
    if k == "not":
        return "!" + show_formula(f[1])
    if k == "teq":
        return show_term(f[1]) + " ≡ " + show_term(f[2])
    if k == "unk":
        return "?" + str(f[1])
    return str(f)


def f_not(f):
    k = f[0]
    if k == "true":
        return ("false",)
    if k == "false":
        return ("true",)
    if k == "not":
        return f[1]
    if k == "cmp":
        kind, p = f[1], f[2]
        if kind == "ge":   # p >= 0  ->  -p - 1 >= 0
            return ("cmp", "ge", -p - 1)
        if kind == "eq":
            return ("cmp", "ne", p)
        if kind == "ne":
            return ("cmp", "eq", p)
    if k == "and":
        return ("or", f_not(f[1]), f_not(f[2]))
    if k == "or":
        return ("and", f_not(f[1]), f_not(f[2]))
    return ("not", f)


def f_and(a, b):
    if a[0] == "true":
        return b
    if b[0] == "true":
        return a
    if a[0] == "false" or b[0] == "false":
        return ("false",)
    return ("and", a, b)


def f_or(a, b):
    if a[0] == "false":
        return b
    if b[0] == "false":
        return a
    if a[0] == "true" or b[0] == "true":
        return ("true",)
    return ("or", a, b)


# ---------------------------------------------------------------------------------------------
# State

class State:
    __slots__ = ("env", "lin", "bnd", "props", "teq", "tne", "path", "unk", "assumed", "pos", "neg")

    def __init__(self):
        self.env = {}
        self.lin = Lin()
        self.bnd = {}      # term -> tuple of Poly (exclusive upper bounds)
        self.props = frozenset()
        self.teq = ()      # tuple of (t1, t2): established equalities between array terms
        self.tne = ()      # tuple of (t1, t2, origin): assumed disequalities
        self.path = ()     # human readable branch decisions
        self.unk = ()      # unknown boolean decisions (key, polarity)
        self.assumed = ()  # names of contract assumptions used on this path
        self.pos = set()   # entailed queries (monotone: stay valid when facts are added)
        self.neg = {}      # non-entailed queries -> number of facts at the time

    def copy(self):
        s = State.__new__(State)
        s.env = dict(self.env)
        s.lin = self.lin.copy()
        s.bnd = dict(self.bnd)
        s.props = self.props
        s.teq = self.teq
        s.tne = self.tne
        s.path = self.path
        s.unk = self.unk
        s.assumed = self.assumed
        s.pos = set(self.pos)
        s.neg = dict(self.neg)
        return s

    # -- facts
    def add_ge(self, p):
        self.lin.add("ge", as_poly(p))

    def add_eq(self, p):
        self.lin.add("eq", as_poly(p))

    def add_ne(self, p):
        self.lin.add("ne", as_poly(p))

    def add_bound(self, term, b):
        b = as_poly(b)
        cur = self.bnd.get(term, ())
        if b not in cur:
            self.bnd[term] = cur + (b,)

    def add_prop(self, *p):
        self.props = self.props | {tuple(p)}

    def has_prop(self, *p):
        return tuple(p) in self.props

    def note(self, msg):
        self.path = self.path + (msg,)

    # -- queries
    def _q(self, kind, p):
        if kind != "ne" and p.is_const():
            c = p.const_value()
            return (c >= 0) if kind == "ge" else (c == 0)
        key = (kind, p)
        if key in self.pos:
            return True
        n = len(self.lin.facts)
        if self.neg.get(key) == n:
            return False
        r = entails(self.lin, kind, p)
        if r:
            self.pos.add(key)
        else:
            self.neg[key] = n
        return r

    def ge(self, a, b=0):
        """a >= b entailed?"""
        return self._q("ge", as_poly(a) - as_poly(b))

    def eq(self, a, b=0):
        p = as_poly(a) - as_poly(b)
        if not p.t:
            return True
        return self._q("eq", p)

    def ne(self, a, b=0):
        return self._q("ne", as_poly(a) - as_poly(b))

    def infeasible(self):
        return infeasible(self.lin)


# ---------------------------------------------------------------------------------------------
# Attribute functions over terms

def t_len(t):
    """Length of an array term as a polynomial."""
    op = t[0]
    if op == "v":
        return Poly.atom(("len", t))
    if op == "empty":
        return Poly.const(0)
    if op == "concat":
        r = Poly.const(0)
        for x in t[1:]:
            r = r + t_len(x)
        return r
    if op in ("shift", "ssub"):
        return t_len(t[2])
    if op == "gather":
        return t_len(t[2])
    if op == "arange":
        return t[2] - t[1]
    if op == "fill":
        return t[2]
    if op == "cumsum":
        return t_len(t[1]) + 1
    if op == "repeat":
        return t_sum(t[1])
    if op == "segsum":
        return t_len(t[1])
    if op == "segarange":
        return t_sum(t[1])
    if op in ("bincount", "scatter"):
        return t[-1]
    if op == "cc":
        return t[3]
    if op in ("argsort", "sac", "sa", "ssa", "add", "sub", "mulcadd", "quot", "rem", "map", "sortby"):
        return t_len(t[1])
    if op == "slice":
        return t[3] - t[2]
    if op in ("spkeys", "spcounts", "hmkeys"):
        return Poly.atom(("nuniq", t[1]))
    if op == "dedup":
        return Poly.atom(("ndedup", t[1]))
    if op == "zero":
        return Poly.atom(("nzero", t[1]))
    if op == "inj":
        return t_sum(t[3])
    if op in ("lmap", "emap", "upd", "enum", "lens"):
        return t_len(t[1])
    if op == "umap":
        return t_len(t[2])
    if op == "flat":
        # keyed by the per-element length, so that element-wise re-labelling keeps the total
        return Poly.atom(("flatlen", flat_base(t[1]), t_len(t[2])))
    if op == "single":
        return Poly.const(1)
    if op in ("sel", "lfilter"):
        # the positions selected by one mask: every sequence filtered by it has the same length
        return Poly.atom(("count", t[2]))
    if op == "Fsizes":
        return t_len(t[2])
    if op == "Fmap":
        return Poly.atom(("sum", ("Fsizes", t[1], t[2])))
    return Poly.atom(("len", t))


def flat_base(S):
    """The list whose elements are enumerated by S (element-wise maps keep the enumeration)."""
    while S[0] in ("lmap", "emap", "umap") :
        S = S[1] if S[0] != "umap" else S[2]
    return S


def t_sum(t):
    op = t[0]
    if op == "empty":
        return Poly.const(0)
    if op == "concat":
        r = Poly.const(0)
        for x in t[1:]:
            r = r + t_sum(x)
        return r
    if op == "fill":
        return t[1] * t[2]
    if op == "bincount":
        return t_len(t[1])
    if op == "spcounts":
        return t_len(t[1])
    if op == "segsum":
        return t_sum(t[2])
    if op == "shift":
        return t_sum(t[2]) + t[1] * t_len(t[2])
    if op == "add":
        return t_sum(t[1]) + t_sum(t[2])
    if op == "lens":
        return t_len(("flat", t[1], t[2]))
    if op == "Fsizes":
        return t_len(("Fmap", t[1], t[2]))
    if op == "gather" and is_perm_term(t[2]) and t_len(t[1]) == t_len(t[2]):
        # PERM-SUM: re-indexing along a permutation of all positions preserves the sum
        return t_sum(t[1])
    return Poly.atom(("sum", t))


def is_perm_term(t):
    """Terms that denote a permutation of 0..len (structural patterns only)."""
    if t[0] == "arange" and not t[1].t:
        return True
    if t[0] == "argsort":
        return True
    if t[0] == "mulcadd":
        r, b, q = t[1], t[2], t[3]
        if r[0] == "rem" and q[0] == "quot" and r[1] == q[1] and r[2] == q[2]:
            i, a = r[1], r[2]
            if i[0] == "arange" and not i[1].t and i[2] == as_poly(a) * as_poly(b):
                return True     # the transposition permutation of an a x b matrix
    return False


def term_facts(st, t):
    """Side facts that hold for atoms mentioned by a term (added lazily, idempotent)."""
    # nuniq(x) <= len(x); nzero(x) <= len(x); ncomp <= n
    op = t[0]
    if op in ("spkeys", "spcounts", "hmkeys"):
        st.add_ge(t_len(t[1]) - Poly.atom(("nuniq", t[1])))
    elif op == "zero":
        st.add_ge(t_len(t[1]) - Poly.atom(("nzero", t[1])))
    elif op in ("sel", "lfilter"):
        st.add_ge(t_len(t[2][1]) - Poly.atom(("count", t[2])))


def ubs(st, t):
    """Candidate exclusive upper bounds (as polynomials) for the elements of term t."""
    op = t[0]
    out = list(st.bnd.get(t, ()))
    if op == "gather":
        out += ubs(st, t[1])
    elif op == "shift":
        out += [b + t[1] for b in ubs(st, t[2])]
    elif op == "arange":
        out.append(t[2])
    elif op == "fill":
        out.append(t[1] + 1)
    elif op == "cumsum":
        out.append(t_sum(t[1]) + 1)
    elif op == "repeat":
        out += ubs(st, t[2])
    elif op == "segsum":
        out.append(t_sum(t[2]) + 1)
    elif op == "segarange":
        out += [b for b in ubs(st, t[1])]
    elif op == "bincount":
        out.append(t_len(t[1]) + 1)
    elif op == "spcounts":
        out.append(t_len(t[1]) + 1)
    elif op in ("spkeys", "hmkeys", "dedup"):
        out += ubs(st, t[1])
    elif op == "zero":
        out.append(t_len(t[1]))
    elif op == "cc":
        out.append(Poly.atom(("ncomp", t[1], t[2], t[3])))
    elif op == "argsort":
        out.append(t_len(t[1]))
    elif op in ("slice", "sortby", "ssa", "sub", "sel"):
        out += ubs(st, t[1])
    elif op == "sac":
        # old array with some positions overwritten by constant c
        pass
    elif op == "add":
        for b1 in ubs(st, t[1]):
            for b2 in ubs(st, t[2]):
                out.append(b1 + b2 - 1)
    elif op == "rem":
        out.append(t[2])
    elif op == "inj":
        out.append(t_sum(t[1]))
    elif op == "at":
        out += list(st.bnd.get(("el", t[1], t[2]), ()))
    elif op == "flat":
        out += ubs(st, t[2])
    if op in ("v", "gather", "concat", "repeat", "slice", "emap", "segsum", "lens"):
        # naturals: every element is <= the sum of all elements
        out.append(t_sum(t) + 1)
    import rules_terms
    for (rule, b) in rules_terms.extra_ubs(st, t):
        rules_terms.USES[rule] = rules_terms.USES.get(rule, 0) + 1
        out.append(b)
    res = []
    for b in out:
        if b not in res:
            res.append(b)
    return res


def prove_bound(st, t, B, depth=0):
    """Prove: every element of t is < B."""
    B = as_poly(B)
    op = t[0]
    if op == "empty":
        return True
    if op == "concat":
        return all(prove_bound(st, x, B, depth + 1) for x in t[1:])
    if op == "sac":
        if prove_bound(st, t[1], B, depth + 1) and (st.ge(B, t[3] + 1) or st.eq(t_len(t[2]), 0)):
            return True
    if op == "sa":
        if prove_bound(st, t[1], B, depth + 1) and prove_bound(st, t[3], B, depth + 1):
            return True
    if op == "upd" and len(t) == 5 and t[3] == () and t[4][0] == "nat":
        # one element overwritten: the old bound still holds if the new element respects it
        if prove_bound(st, t[1], B, depth + 1) and st.ge(B, as_poly(t[4][1]) + 1):
            return True
    if op == "shift":
        if prove_bound(st, t[2], B - t[1], depth + 1):
            return True
    if op == "gather":
        if prove_bound(st, t[1], B, depth + 1):
            return True
    if op in ("repeat",):
        if prove_bound(st, t[2], B, depth + 1):
            return True
    if op in ("slice", "sortby", "ssa", "sub", "spkeys", "hmkeys", "dedup", "scatter"):
        # scatter: every position is written (documented: the index map is surjective) or holds
        # a filler that is itself an element of the scattered array
        if prove_bound(st, t[1], B, depth + 1):
            return True
    cand = ubs(st, t)
    for b in cand:
        if st.ge(B, b):
            return True
    n = t_len(t)
    if st.eq(n, 0):
        return True
    # case split: the array is empty (nothing to show) or has at least one element
    if not n.is_const() and cand:
        from poly import Lin, entails
        L = Lin(st.lin.facts + [("ge", n - 1)], None)
        for b in cand:
            if entails(L, "ge", B - b):
                return True
    import rules_terms
    r = rules_terms.trusted_bound(st, t, B)
    if r:
        rules_terms.USES[r] = rules_terms.USES.get(r, 0) + 1
        return True
    return False


# ---------------------------------------------------------------------------------------------
# Normaliser (array algebra used to compare label types and wiring)

def mk_concat(parts):
    flat = []
    for p in parts:
        if p[0] == "concat":
            flat.extend(p[1:])
        elif p[0] == "empty":
            continue
        else:
            flat.append(p)
    if not flat:
        return EMPTY
    if len(flat) == 1:
        return flat[0]
    return ("concat",) + tuple(flat)


def mk_shift(c, x):
    c = as_poly(c)
    if not c.t:
        return x
    if x[0] == "shift":
        return mk_shift(c + x[1], x[2])
    if x[0] == "concat":
        return mk_concat([mk_shift(c, p) for p in x[1:]])
    if x[0] == "empty":
        return EMPTY
    if x[0] == "arange":
        return ("arange", x[1] + c, x[2] + c)
    return ("shift", c, x)


def mk_arange(a, b):
    return ("arange", as_poly(a), as_poly(b))


def mk_gather(st, x, idx, depth=0):
    """gather(x, idx) in normal form (modulo the equalities established on this path)."""
    r = _mk_gather(st, x, idx, depth)
    if st.teq and r[0] == "gather":
        for (a, b) in st.teq:
            if r == a:
                return b
    return r


def _mk_gather(st, x, idx, depth=0):
    if depth > 40:
        return ("gather", x, idx)
    if idx[0] == "empty":
        return EMPTY
    if idx[0] == "concat":
        return mk_concat([mk_gather(st, x, p, depth + 1) for p in idx[1:]])
    if idx[0] == "gather":
        # gather(x, gather(i, j)) = gather(gather(x, i), j): normalise inner first
        inner = mk_gather(st, x, idx[1], depth + 1)
        if inner[0] != "gather" or inner[1] != x or inner[2] != idx[1]:
            return mk_gather(st, inner, idx[2], depth + 1)
        return ("gather", x, idx)
    if x[0] == "gather":
        # gather(gather(y, i), j) = gather(y, gather(i, j))
        return mk_gather(st, x[1], mk_gather(st, x[2], idx, depth + 1), depth + 1)
    if x[0] == "arange":
        # gather(arange(a,b), idx) = a + idx
        return mk_shift(x[1], idx)
    if idx[0] == "arange":
        if not idx[1].t and st.eq(idx[2], t_len(x)):
            return x
        if x[0] == "concat":
            # a contiguous range that is exactly a run of parts
            off = Poly.const(0)
            parts = list(x[1:])
            i = 0
            while i < len(parts) and not st.eq(off, idx[1]):
                off = off + t_len(parts[i])
                i += 1
            if i <= len(parts) and st.eq(off, idx[1]):
                j = i
                acc = []
                while j < len(parts) and not st.eq(off, idx[2]):
                    off = off + t_len(parts[j])
                    acc.append(parts[j])
                    j += 1
                if st.eq(off, idx[2]):
                    return mk_concat(acc)
    if x[0] == "concat":
        parts = list(x[1:])
        # the indices fall into a proper prefix of the parts
        pre = Poly.const(0)
        for k in range(1, len(parts)):
            pre = pre + t_len(parts[k - 1])
            if prove_bound(st, idx, pre):
                return mk_gather(st, mk_concat(parts[:k]), idx, depth + 1)
        # the indices are offset past a prefix of the parts
        off = None
        if idx[0] == "shift":
            off = idx[1]
        elif idx[0] == "arange":
            off = idx[1]
        if off is not None:
            pre = Poly.const(0)
            drop = 0
            for k in range(len(parts) - 1):
                nxt = pre + t_len(parts[k])
                if st.ge(off, nxt):
                    pre = nxt
                    drop = k + 1
                else:
                    break
            if drop:
                rest = mk_concat(parts[drop:])
                if idx[0] == "shift":
                    d = idx[1] - pre
                    if st.eq(d, 0):
                        d = Poly.const(0)
                    return mk_gather(st, rest, mk_shift(d, idx[2]), depth + 1)
                return mk_gather(st, rest, mk_arange(idx[1] - pre, idx[2] - pre), depth + 1)
    if x[0] == "shift":
        # gather(c + y, idx) = c + gather(y, idx)
        return mk_shift(x[1], mk_gather(st, x[2], idx, depth + 1))
    if x[0] == "fill":
        return ("fill", x[1], t_len(idx))
    # functor naturality (A_F1: map_object acts element-wise)
    if x[0] == "Fsizes":
        return ("Fsizes", x[1], mk_gather(st, x[2], idx, depth + 1))
    if x[0] == "Fmap" and idx[0] == "inj" and idx[1] == ("Fsizes", x[1], x[2]):
        return ("Fmap", x[1], mk_gather(st, x[2], idx[2], depth + 1))
    if x[0] == "inj" and False:
        pass
    return ("gather", x, idx)


def mk_inj(st, s, a):
    """Block-wise injections of the size map s along a (see FiniteFunction::injections)."""
    if a[0] == "empty":
        return EMPTY
    if a[0] == "concat":
        return mk_concat([mk_inj(st, s, p) for p in a[1:]])
    if a[0] == "arange" and not a[1].t and st.eq(a[2], t_len(s)):
        return mk_arange(0, t_sum(s))
    if s[0] == "fill" and s[1] == Poly.const(1):
        return a      # unit blocks: the block-wise injection is the index map itself
    return ("inj", s, a, mk_gather(st, s, a))


def mk_add(st, a, b):
    """Element-wise sum; recognises the block-wise injection idiom."""
    for r, z in ((a, b), (b, a)):
        if r[0] == "segarange" and z[0] == "repeat" and z[1] == r[1]:
            k, vals = r[1], z[2]
            if vals[0] == "gather" and vals[1][0] == "cumsum":
                s_, a_ = vals[1][1], vals[2]
                if k == mk_gather(st, s_, a_):
                    return mk_inj(st, s_, a_)
    # element-wise addition of naturals is commutative: one order for the normal form (not for arrays of a generic
    # element type, whose `+` is the element type's own)
    if repr(b) < repr(a) and _nat_arrays(a, b):
        a, b = b, a
    return ("add", a, b)


def _nat_arrays(a, b):
    import lax_model
    return not lax_model.label_of(a) and not lax_model.label_of(b)


OPAQUE_OPS = {"lmap", "single", "flat", "lens", "emap", "zip", "enum", "filtermap", "mapwhile", "list", "upd", "el", "at",
              "umap", "truncate", "rec", "seq", "nat", "tup", "user", "unit", "enum", "bool", "top"}


def normalise(st, t, depth=0):
    """Normal form of a term under the array algebra and the established equalities."""
    if not isinstance(t, tuple) or depth > 30 or not t:
        return t
    if not isinstance(t[0], str):
        # a tuple of sub-structures (e.g. the field list of a frozen record inside a mapped list)
        return tuple(normalise(st, a, depth + 1) if isinstance(a, tuple) else (normalise_poly(st, a) if isinstance(a, Poly) else a) for a in t)
    op = t[0]
    if op in OPAQUE_OPS:
        r = t
    elif op == "empty":
        r = t
    elif op == "v":
        r = EMPTY if _known_empty(st, t) else t
    elif op == "concat":
        parts = [normalise(st, p, depth + 1) for p in t[1:]]
        parts = [p for p in parts if p[0] == "empty" or not _known_empty(st, p)]
        r = mk_concat(parts)
    elif op == "shift":
        r = mk_shift(t[1], normalise(st, t[2], depth + 1))
    elif op == "gather":
        r = mk_gather(st, normalise(st, t[1], depth + 1), normalise(st, t[2], depth + 1))
        if r[0] == "gather" and _known_empty(st, r):
            r = EMPTY
    elif op == "arange":
        r = t
    elif op in ("Fmap", "Fsizes"):
        inner = normalise(st, t[2], depth + 1)
        if inner[0] == "concat":
            r = mk_concat([(op, t[1], p) for p in inner[1:]])
        elif inner[0] == "empty":
            r = EMPTY
        else:
            r = (op, t[1], inner)
    elif op == "inj":
        r = mk_inj(st, normalise(st, t[1], depth + 1), normalise(st, t[2], depth + 1))
    else:
        r = (op,) + tuple(normalise(st, a, depth + 1) if isinstance(a, tuple) else a for a in t[1:])
    r2 = _degenerate(st, r)
    if r2 is not r and r2 != r:
        return normalise(st, r2, depth + 1)
    # rewrite with established equalities (oriented: bigger -> smaller)
    for (a, b) in st.teq:
        if r == a and a != b:
            return normalise(st, b, depth + 1)
    return r


def normalise_poly(st, p, depth=0):
    """Atoms that read a term (get / sum / len / max of a term) are re-expressed over the term's normal form; reads of
    constant arrays become their value."""
    if not isinstance(p, Poly) or depth > 4:
        return p
    mapping = {}
    for a in p.atoms():
        if not (isinstance(a, tuple) and a and isinstance(a[0], str)):
            continue
        try:
            if a[0] == "get" and len(a) == 3 and isinstance(a[1], tuple):
                t = normalise(st, a[1])
                if t[0] == "fill":
                    mapping[a] = as_poly(t[1])
                elif t != a[1]:
                    mapping[a] = Poly.atom(("get", t, a[2]))
            elif a[0] == "sum" and len(a) == 2 and isinstance(a[1], tuple):
                t = normalise(st, a[1])
                v = t_sum(t)
                if v != Poly.atom(a):
                    mapping[a] = v
            elif a[0] == "len" and len(a) == 2 and isinstance(a[1], tuple):
                t = normalise(st, a[1])
                v = t_len(t)
                if v != Poly.atom(a):
                    mapping[a] = v
            elif a[0] == "max" and len(a) == 2 and isinstance(a[1], tuple):
                t = normalise(st, a[1])
                if t[0] == "fill" and st.ge(as_poly(t[2]), 1):
                    mapping[a] = as_poly(t[1])
                elif t != a[1]:
                    mapping[a] = Poly.atom(("max", t))
            elif a[0] == "nzero" and len(a) == 2 and isinstance(a[1], tuple):
                t = normalise(st, a[1])
                if t != a[1]:
                    mapping[a] = Poly.atom(("nzero", t))
            elif a[0] == "ncomp" and len(a) == 4 and depth < 3:
                # the number of classes of a coequalizer: over the normal forms of the two legs
                x, y = normalise(st, deep_degenerate(st, a[1], 30)), normalise(st, deep_degenerate(st, a[2], 30))
                n = normalise_poly(st, as_poly(a[3]), depth + 1)
                if (x, y, n) != (a[1], a[2], a[3]):
                    mapping[a] = Poly.atom(("ncomp", x, y, n))
        except Exception:
            continue
    return p.subst(mapping) if mapping else p


def _is_zero_fill(st, t):
    return t[0] == "fill" and st.eq(as_poly(t[1]), 0)


def _degenerate(st, r):
    """Simplifications that hold because of what the path established (an operand is empty, an offset or a factor is
    0, a divisor is 1, ...): the special cases that hand-written fast paths exploit."""
    op = r[0]
    if op in ("empty", "v", "arange") or not isinstance(r, tuple):
        return r
    try:
        if op not in ("fill",) and _known_empty(st, r):
            return EMPTY
        if op == "shift" and st.eq(as_poly(r[1]), 0):
            return r[2]
        if op == "gather" and r[2][0] == "spkeys" and r[1][0] == "bincount" and r[1][1] == r[2][1]:
            # the number of occurrences of each distinct value, in ascending order of the values
            return ("spcounts", r[2][1])
        if op == "bincount" and _known_empty(st, r[1]):
            return ("fill", Poly.const(0), as_poly(r[2]))
        if op == "bincount" and r[1][0] == "concat" and len(r[1]) >= 3:
            # occurrences in a concatenation = sum of the occurrences in the parts
            acc = ("bincount", r[1][1], r[2])
            for part in r[1][2:]:
                acc = mk_add(st, acc, ("bincount", part, r[2]))
            return acc
        if op == "add":
            if _is_zero_fill(st, r[2]):
                return r[1]
            if _is_zero_fill(st, r[1]):
                return r[2]
            if repr(r[2]) < repr(r[1]) and _nat_arrays(r[1], r[2]):
                return ("add", r[2], r[1])          # commutative (naturals): one order for the normal form
        if op == "sub" and _is_zero_fill(st, r[2]):
            return r[1]
        if op in ("sa", "sac", "ssa") and _known_empty(st, r[2]):
            return r[1]
        if op == "mulcadd" and st.eq(as_poly(r[2]), 0):
            return r[3]
        if op == "quot" and st.eq(as_poly(r[2]), 1):
            return r[1]
        if op == "rem" and st.eq(as_poly(r[2]), 1):
            return ("fill", Poly.const(0), t_len(r[1]))
        if op == "fill" and st.eq(as_poly(r[2]), 0):
            return EMPTY
        if op == "slice" and st.eq(as_poly(r[2]), 0) and st.eq(as_poly(r[3]), t_len(r[1])):
            return r[1]
        if op == "slice" and r[1][0] == "gather":
            # a window of a re-indexing = the re-indexing along the window of the indices: the same normal form as
            # composing with the injection arange(lo, hi)
            inner = _degenerate(st, ("slice", r[1][2], r[2], r[3]))
            if inner[0] == "slice":
                inner = ("arange", as_poly(r[2]), as_poly(r[3]))
                return mk_gather(st, r[1], inner)
            return mk_gather(st, r[1][1], inner)
        if op == "slice" and r[1][0] == "arange":
            return ("arange", as_poly(r[1][1]) + as_poly(r[2]), as_poly(r[1][1]) + as_poly(r[3]))
        if op == "slice" and r[1][0] == "shift":
            return mk_shift(r[1][1], _degenerate(st, ("slice", r[1][2], r[2], r[3])))
        if op == "slice" and r[1][0] == "concat":
            # a window that is exactly a run of parts
            lo, hi = as_poly(r[2]), as_poly(r[3])
            off = Poly.const(0)
            parts = list(r[1][1:])
            i = 0
            while i < len(parts) and not st.eq(off, lo):
                off = off + t_len(parts[i])
                i += 1
            if st.eq(off, lo):
                acc = []
                while i < len(parts) and not st.eq(off, hi):
                    off = off + t_len(parts[i])
                    acc.append(parts[i])
                    i += 1
                if st.eq(off, hi):
                    return mk_concat(acc)
            # a window that starts and / or ends inside a part: whole parts in the middle, windows of the two ends
            parts = list(r[1][1:])
            offs = [Poly.const(0)]
            for p_ in parts:
                offs.append(offs[-1] + t_len(p_))
            i0 = next((i for i in range(len(parts)) if st.ge(lo, offs[i]) and st.ge(offs[i + 1], lo)), None)
            j0 = next((j for j in range(len(parts) - 1, -1, -1) if st.ge(hi, offs[j]) and st.ge(offs[j + 1], hi)), None)
            if i0 is not None and j0 is not None and i0 <= j0 and (i0, j0) != (0, len(parts) - 1) or \
                    (i0 is not None and j0 is not None and i0 < j0):
                if i0 == j0:
                    return ("slice", parts[i0], lo - offs[i0], hi - offs[i0])
                acc = []
                first = ("slice", parts[i0], lo - offs[i0], t_len(parts[i0]))
                acc.append(parts[i0] if st.eq(lo, offs[i0]) else first)
                acc.extend(parts[i0 + 1:j0])
                last = ("slice", parts[j0], Poly.const(0), hi - offs[j0])
                acc.append(parts[j0] if st.eq(hi, offs[j0 + 1]) else last)
                return mk_concat([a_ for a_ in acc if not _known_empty(st, a_)])
            # not a run of whole parts: the normal form of composing with the injection arange(lo, hi)
            return mk_gather(st, r[1], ("arange", lo, hi))
        if op == "repeat" and r[1][0] == "fill" and st.eq(as_poly(r[1][1]), 1):
            return r[2]         # every element repeated once
        if op == "lmap" and isinstance(r[2], tuple) and len(r[2]) == 3 and r[2][0] == "rec":
            # mapping every hyperedge to itself
            flds = dict(r[2][2]) if all(isinstance(x, tuple) and len(x) == 2 for x in r[2][2]) else {}
            if set(flds) == {"sources", "targets"} and flds["sources"] == ("seq", ("el", r[1], "sources")) \
                    and flds["targets"] == ("seq", ("el", r[1], "targets")):
                return r[1]
    except Exception:
        return r
    return r


def _known_empty(st, t):
    n = t_len(t)
    if not n.t:
        return True
    if n.is_const():
        return False
    if st.eq(n, 0):
        sm = t_sum(t)
        if not sm.is_const():
            st.add_eq(sm)
        return True
    # natural numbers below an upper bound that is <= 0: there are none
    for b in ubs(st, t):
        if st.ge(0, b):
            st.add_eq(n)
            return True
    return False


def is_flag_fill(t):
    """fill(<bool constant>, n): returns False / True for the constant, None otherwise."""
    if t[0] == "fill":
        for a_ in as_poly(t[1]).atoms():
            if isinstance(a_, tuple) and len(a_) == 2 and a_[0] == "val" and isinstance(a_[1], str):
                if "false" in a_[1]:
                    return False
                if "true" in a_[1]:
                    return True
    return None


def flag_count(st, t):
    """The number of `true` entries of a vector of flags, as a polynomial over ntrue(leaf) atoms; None when a write's
    effect on the count is not determined by the path (the overwritten flag was not tested)."""
    c = is_flag_fill(t)
    if c is not None:
        return t_len(t) if c else Poly.const(0)
    if t[0] == "v":
        return Poly.atom(("ntrue", t))
    if t[0] == "upd" and t[3] == () and isinstance(t[4], tuple) and t[4][0] == "bool" and t[4][1] in (("true",), ("false",)):
        base = flag_count(st, t[1])
        if base is None:
            return None
        key = ("flag", t[1], as_poly(t[2]))
        was = True if (key, True) in st.unk else (False if (key, False) in st.unk else None)
        now = t[4][1] == ("true",)
        if was is None:
            return None
        return base + (int(now) - int(was))
    return None


def flag_read_fact(st, base, truth):
    """A flag read as false: not every flag is set; read as true: at least one is."""
    n = flag_count(st, base)
    if n is None or n.is_const():
        return
    st.add_ge(t_len(base) - n)
    if truth:
        st.add_ge(n - 1)
    else:
        st.add_ge(t_len(base) - n - 1)


def term_size(t):
    if not isinstance(t, tuple):
        return 1
    return 1 + sum(term_size(x) for x in t[1:])


def deep_degenerate(st, t, depth=0):
    """The degenerate-case simplifications applied everywhere inside a term, also below binders (mapped lists, frozen
    records): shift by 0, concatenation with an empty part, the identity map of a list of hyperedges, ..."""
    if isinstance(t, Poly):
        return normalise_poly(st, t)
    if not isinstance(t, tuple) or depth > 40 or not t:
        return t
    kids = tuple(deep_degenerate(st, x, depth + 1) for x in t)
    if isinstance(kids[0], str) and kids[0] in ("shift", "lmap", "concat", "add", "sub", "mulcadd", "sa", "sac", "ssa",
                                              "bincount", "fill", "slice", "repeat", "gather", "quot", "rem"):
        r = kids
        if r[0] == "concat":
            r = mk_concat([p for p in r[1:] if not (p[0] == "empty")])
        r2 = _degenerate(st, r)
        return r2
    return kids


def terms_equal(st, a, b):
    if a == b:
        return True
    na, nb = normalise(st, a), normalise(st, b)
    if na == nb:
        return True
    # compare part-wise for concatenations with polynomially equal pieces
    if _struct_eq(st, na, nb):
        return True
    # special cases established by the path (an empty operand, a zero offset, ...) inside mapped lists and records
    da, db = deep_degenerate(st, na), deep_degenerate(st, nb)
    if (da != na or db != nb):
        da, db = normalise(st, da), normalise(st, db)
        return da == db or _struct_eq(st, da, db)
    return False


def _struct_eq(st, a, b):
    if a == b:
        return True
    if isinstance(a, Poly) and isinstance(b, Poly):
        return st.eq(a, b)
    if not isinstance(a, tuple) or not isinstance(b, tuple):
        return False
    if isinstance(a, tuple) and isinstance(b, tuple) and a[0] == b[0] and len(a) == len(b) and a[0] != "v":
        return all(_struct_eq(st, x, y) for x, y in zip(a[1:], b[1:]))
    return False
