"""Step specifications for loops whose effect the invariant inference only summarises.

run_loop calls check() once per analysed loop, after the invariants are stable, with the symbolic state at the loop
head (every loop-carried variable is an opaque `loopvar` leaf) and the states at the back edges of ONE iteration.
A step spec states, as term equalities, what one iteration must do to the loop-carried variables.  It is the checked
premise of the trusted lemmas about the loop (KAHN-TRUSTED, LAYER-TRUSTED): those lemmas are facts about Kahn's
algorithm, so they may only be used if the loop body IS a step of Kahn's algorithm."""
import os
from poly import Poly, as_poly, show_poly
from values import *

DEBUG = bool(os.environ.get("OHSA_LOOPSPEC_DEBUG"))

# loop -> {role: loop-head value}: which loop-carried variable of a recognised kahn loop plays which role (decided from
# the values at loop entry, never from the names of the locals); cleared per entry point
KAHN_ROLES = {}


def check(I, fr, lname, names, entry, fresh, head, outs):
    fn = lname[0]
    if fn.endswith("strict::graph::kahn") or kahn_roles(entry)[0]:
        # by name (a loop in `kahn` that lost the signature is reported as not decided) or by signature (the function
        # was renamed or its loop moved into a helper)
        kahn_step(I, fr, lname, names, entry, fresh, head, outs)
    if fn.endswith("::is_convex_subgraph"):
        convex_step(I, fr, lname, names, entry, fresh, head, outs)
    if "lax::functor::" in fn:
        # any loop of the lax functor modules that accumulates a diagram (the helper may have any name)
        image_accumulation_step(I, fr, lname, names, entry, fresh, head, outs)
    if fn.endswith("::is_convex_subgraph") and DEBUG:
        for r, (place, v) in entry.items():
            print("CONVEX entry", names.get(r, r), repr(v)[:200])
        for (s, v, ctl) in outs:
            print("CONVEX outcome", ctl)
            for r, (place, v0) in entry.items():
                print("   post", names.get(r, r), repr(I.read_place(s, place))[:700])


def _ob(I, fr, what, goal, ok, st, undecided=False):
    node = {"sp": fr.fn["sp"] if fr.fn else "?"}
    I.oblige("ENS", fr, node, what, goal, ok, "loop-step" if ok else "", detail="" if ok else I.describe(st),
             status=("undecided" if (undecided and not ok) else None))


def kahn_roles(entry):
    """The loop-carried variables of a loop with kahn's signature, by role, decided from their values at loop entry
    (robust to renaming of locals and of the function): a zero depth counter, an order array of zeros, unvisited flags
    of ones (possibly with the initial frontier already cleared), the in-degree function, and a frontier that is the
    zero set of something.  ({}, set()) when the loop does not have exactly this state."""
    import inv
    roles = {}
    mark_next = set()
    for r, (place, v) in entry.items():
        if isinstance(v, VNat) and v.p.is_const() and v.p.const_value() == 0:
            roles.setdefault("depth", r)
        elif isinstance(v, VSeq) and v.t[0] == "fill" and as_poly(v.t[1]) == Poly.const(0):
            roles.setdefault("order", r)
        elif isinstance(v, VSeq) and v.t[0] == "fill" and as_poly(v.t[1]) == Poly.const(1):
            roles.setdefault("unvisited", r)
        elif isinstance(v, VSeq) and v.t[0] == "sac" and v.t[1][0] == "fill" and as_poly(v.t[1][1]) == Poly.const(1) \
                and as_poly(v.t[3]) == Poly.const(0):
            roles.setdefault("unvisited", r)
            mark_next.add("unvisited")
        elif isinstance(v, VRec) and v.ty == inv.FF:
            roles.setdefault("indegree", r)
        elif isinstance(v, VSeq) and v.t[0] == "zero":
            roles.setdefault("frontier", r)
    if len(roles) != 5 or len(entry) != 5:
        return {}, set()
    return roles, mark_next


def announce(I, fr, lname, entry, fresh):
    """Called by run_loop BEFORE the body is evaluated: a loop with kahn's signature is registered, so that the lemmas
    about kahn's algorithm are available inside its body; kahn_step then checks that the body IS a step of it."""
    roles, _ = kahn_roles(entry)
    if roles:
        KAHN_ROLES[tuple(lname)] = {k: fresh[r] for k, r in roles.items()}
        return True
    return False


def kahn_step(I, fr, lname, names, entry, fresh, head, outs):
    import inv
    from lax_model import deref
    # roles from the values at loop entry (robust to renaming of locals)
    roles = {}
    mark_next = set()
    for r, (place, v) in entry.items():
        if isinstance(v, VNat) and v.p.is_const() and v.p.const_value() == 0:
            roles.setdefault("depth", r)
        elif isinstance(v, VSeq) and v.t[0] == "fill" and as_poly(v.t[1]) == Poly.const(0):
            roles.setdefault("order", r)
        elif isinstance(v, VSeq) and v.t[0] == "fill" and as_poly(v.t[1]) == Poly.const(1):
            roles.setdefault("unvisited", r)
        elif isinstance(v, VSeq) and v.t[0] == "sac" and v.t[1][0] == "fill" and as_poly(v.t[1][1]) == Poly.const(1) \
                and as_poly(v.t[3]) == Poly.const(0):
            # marking discipline B: a node is marked when it enters the frontier (the initial frontier before the loop)
            roles.setdefault("unvisited", r)
            mark_next.add("unvisited")
        elif isinstance(v, VRec) and v.ty == inv.FF:
            roles.setdefault("indegree", r)
        elif isinstance(v, VSeq) and v.t[0] == "zero":
            roles.setdefault("frontier", r)
    back = [(s, v, ctl) for (s, v, ctl) in outs if ctl in (None, "continue")]
    what0 = "kahn step"
    if len(roles) != 5 or len(entry) != 5 or not back:
        _ob(I, fr, what0 + ": loop-carried state is (depth, order, unvisited, indegree, frontier)",
            f"recognised roles {sorted(roles)} among {len(entry)} loop-carried variables", False, head, undecided=True)
        return
    pre = {k: fresh[r] for k, r in roles.items()}
    KAHN_ROLES[tuple(lname)] = pre
    U, O, F = pre["unvisited"].t, pre["order"].t, pre["frontier"].t
    Dt = pre["indegree"].f["table"].t
    d = pre["depth"].p
    for (s, v, ctl) in back:
        post = {k: I.read_place(s, entry[r][0]) for k, r in roles.items()}
        _ob(I, fr, what0 + ": depth advances by one", f"depth' == depth + 1", s.eq(post["depth"].p, d + 1), s)
        if "unvisited" in mark_next:
            U1 = ("sac", U, post["frontier"].t, Poly.const(0))
            _ob(I, fr, what0 + ": exactly the nodes entering the next frontier are marked visited",
                "unvisited' ≡ unvisited[frontier' := 0]", terms_equal(s, post["unvisited"].t, U1), s)
        else:
            U1 = ("sac", U, F, Poly.const(0))
            _ob(I, fr, what0 + ": exactly the frontier is marked visited", "unvisited' ≡ unvisited[frontier := 0]",
                terms_equal(s, post["unvisited"].t, U1), s)
        _ob(I, fr, what0 + ": the frontier receives the current depth", "order' ≡ order[frontier := depth]",
            terms_equal(s, post["order"].t, ("sac", O, F, d)), s)
        D1 = normalise(s, post["indegree"].f["table"].t)
        if D1 == Dt and terms_equal(s, post["frontier"].t, EMPTY):
            # nothing is reachable from the frontier: the decrement is by no pairs and the search ends here
            _ob(I, fr, what0 + ": the persistent in-degree is decremented by the (key, count) pairs of one sparse count",
                "no successors: indegree' ≡ indegree and frontier' ≡ []", True, s)
            continue
        ok = D1[0] == "ssa" and D1[1] == Dt and D1[2][0] == "spkeys" and D1[3][0] == "spcounts" and D1[2][1] == D1[3][1]
        _ob(I, fr, what0 + ": the persistent in-degree is decremented by the (key, count) pairs of one sparse count",
            "indegree' ≡ indegree[keys −= counts], (keys, counts) = sparse_bincount(X): got " + show_term(D1)[:200], ok, s)
        if not ok:
            continue
        X = D1[2][1]
        K = D1[2]
        # X must be the targets reached from the frontier: the adjacency's values re-indexed block-wise along it
        _ob(I, fr, what0 + ": the counted nodes are the successors of the frontier (block-wise re-indexing along it)",
            "X mentions the frontier through inj(sizes, frontier): " + show_term(X)[:200], _mentions_inj_of(X, F), s)
        cand = mk_gather(s, K, ("zero", mk_gather(s, D1, K)))
        # the flags consulted are those after this round's marking (discipline A: the frontier itself was marked at
        # the top of the round) or, in discipline B, those before the next frontier is marked
        flags_t = U if "unvisited" in mark_next else post["unvisited"].t
        F1 = ("repeat", mk_gather(s, flags_t, cand), cand)
        # the two selections commute: unvisited first, then remaining in-degree zero
        cand2 = ("repeat", mk_gather(s, flags_t, K), K)
        F1b = mk_gather(s, cand2, ("zero", mk_gather(s, D1, cand2)))
        _ob(I, fr, what0 + ": next frontier = reached nodes whose remaining in-degree is zero and which are unvisited",
            "frontier' ≡ filter(keys[indegree'[keys] == 0], unvisited'): got " + show_term(normalise(s, post["frontier"].t))[:200],
            terms_equal(s, post["frontier"].t, F1) or terms_equal(s, post["frontier"].t, F1b), s)


def _mentions_inj_of(t, F):
    if isinstance(t, tuple):
        if t and t[0] == "inj" and any(x == F for x in t[1:]):
            return True
        return any(_mentions_inj_of(x, F) for x in t)
    return False


def _mentions(x, leaf_):
    if x == leaf_:
        return True
    if isinstance(x, tuple):
        return any(_mentions(y, leaf_) for y in x)
    if isinstance(x, Poly):
        return any(_mentions(a, leaf_) for a in x.atoms())
    return False


def convex_step(I, fr, lname, names, entry, fresh, head, outs):
    """Two-layer reachability of is_convex_subgraph: the frontier of paths that already left the image (the loop-carried
    sequence that starts EMPTY) may become the empty constant only when it has no successors left — an outside path in
    progress is never abandoned.  (The search itself is not decided; this is the necessary condition a misplaced
    emptiness shortcut breaks.)"""
    f1 = None
    for r, (place, v) in entry.items():
        if isinstance(v, VSeq) and v.t == EMPTY:
            f1 = r if f1 is None else f1
    if f1 is None:
        return
    F1 = fresh[f1].t
    place = entry[f1][0]
    for (s, v, ctl) in outs:
        if ctl not in (None, "continue"):
            continue
        post = I.read_place(s, place)
        if not (isinstance(post, VSeq) and post.t == EMPTY):
            continue
        if s.eq(t_len(F1), 0):
            ok = True
        else:
            atoms = set()
            for k_, p_ in s.lin.facts:
                for a_ in p_.atoms():
                    if isinstance(a_, tuple) and a_ and a_[0] == "nuniq" and _mentions(a_[1], F1):
                        atoms.add(a_)
            ok = bool(atoms) and all(s.eq(Poly.atom(a_), 0) for a_ in atoms)
            if not atoms:
                # the successors were found empty before any distinct-value count was taken (e.g. "no edge leaves the
                # frontier"): some re-indexing along the frontier is known to be empty on this path
                terms = set()

                def visit(t):
                    if isinstance(t, tuple):
                        if t and t[0] in ("gather", "inj") and t != F1 and _mentions(t, F1):
                            terms.add(t)
                        for y in t:
                            visit(y)
                    elif isinstance(t, Poly):
                        for a_ in t.atoms():
                            visit(a_)
                for k_, p_ in s.lin.facts:
                    visit(p_)
                ok = any(s.eq(t_len(t_), 0) or s.eq(t_sum(t_), 0) for t_ in terms)
        _ob(I, fr, "convexity search: the frontier of paths that left the image is emptied only when it has no successors",
            "frontier1' = [] ⇒ frontier1 = [] or successors(frontier1) = []", ok, s)


def image_accumulation_step(I, fr, lname, names, entry, fresh, head, outs):
    """The loops that tensor the images of all operations (lax functor application): an iteration that leaves the
    accumulated diagram's hyperedges unchanged is allowed only when the image of this operation has no hyperedges —
    'every hyperedge is replaced by the image of its operation'."""
    import inv
    acc = None
    for r, (place, v) in entry.items():
        if isinstance(v, VRec) and v.ty in (inv.LOH, inv.LH):
            acc = r
    if acc is None:
        return
    place = entry[acc][0]
    pre = fresh[acc]
    pre_h = pre.f["hypergraph"] if pre.ty == inv.LOH else pre
    for (s, v, ctl) in outs:
        if ctl not in (None, "continue"):
            continue
        post = I.read_place(s, place)
        if not isinstance(post, VRec):
            continue
        post_h = post.f["hypergraph"] if post.ty == inv.LOH else post
        unchanged = post_h.f["edges"].t == pre_h.f["edges"].t
        if not unchanged:
            continue
        imgs = set()

        def visit(t):
            if isinstance(t, tuple):
                if len(t) == 2 and t[0] == "v" and isinstance(t[1], tuple) and len(t[1]) == 2 and t[1][1] == "edges" \
                        and isinstance(t[1][0], tuple) and t[1][0][:2] == ("user", "lax_map_operation"):
                    imgs.add(t)
                for y in t:
                    visit(y)
            elif isinstance(t, Poly):
                for a_ in t.atoms():
                    visit(a_)
        for k_, p_ in s.lin.facts:
            visit(p_)
        for t_ in list(s.bnd):
            visit(t_)
        ok = all(s.eq(t_len(L), 0) for L in imgs)
        _ob(I, fr, "functor application: an operation's image is left out only if it has no hyperedges",
            "accumulated hyperedges unchanged ⇒ the image of this operation has none", ok, s)
