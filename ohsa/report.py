"""Decide a property from the analysis result; write evidence; print findings."""
import hashlib
import json
import os
import time

import properties

HERE = os.path.dirname(os.path.abspath(__file__))
VERIF = os.path.dirname(HERE)
OUT = os.environ.get("OHSA_OUT", VERIF)


def known_findings():
    out = {}
    p = os.path.join(VERIF, "KNOWN_FINDINGS.txt")
    if not os.path.exists(p):
        return out
    for line in open(p):
        line = line.rstrip("\n")
        if not line.startswith("finding:"):
            continue
        # finding: property=C06 key=<key> :: text
        body = line[len("finding:"):].strip()
        prop = body.split()[0].split("=", 1)[1]
        rest = body.split(" ", 1)[1]
        key, _, text = rest.partition(" ;; ")
        key = key[len("key="):] if key.startswith("key=") else key
        out[(prop, key)] = text
    return out


def ob_key(o):
    return f"{o['kind']}|{o['fn']}|{o['what']}|{o['goal']}"


def known_lookup(known, prop, k):
    """A listed finding is identified by kind | function | site | violated clause; the term the clause is instantiated
    with (after ` :: `) is not part of its identity, so re-writing the defective function without repairing it does not
    turn the recorded defect into a new alarm, while any OTHER clause failing there is still reported."""
    if (prop, k) in known:
        return known[(prop, k)]
    head = k.split(" :: ", 1)[0]
    if (prop, head) in known:
        return known[(prop, head)]
    return None


def short_key(k):
    return hashlib.sha256(k.encode()).hexdigest()[:16]


def select_entries(prop, res, with_premises=True):
    """The entry points the property names, followed by its premises: the public operations those entry points call
    directly (marked `premise_of`).  The named entry points are analysed with the callee's code inlined or — for the
    array primitives — against the array contract; the callee's own clauses are what those steps rest on."""
    spec = properties.PROPS[prop]
    sel = []
    for e in res["entries"]:
        if any(pat in e["entry"] for pat in spec["entries"]):
            sel.append(e)
    if not with_premises or spec.get("premises") is False:
        return sel
    have = {e["entry"] for e in sel}
    wanted = {}
    for e in sel:
        for d in e.get("deps", []):
            wanted.setdefault(d, e["entry"])
    skip = spec.get("premises_skip", ())
    for e in res["entries"]:
        if e["fn"] in wanted and e["entry"] not in have and not any(pat in e["entry"] for pat in skip):
            e2 = dict(e)
            e2["premise_of"] = wanted[e["fn"]]
            sel.append(e2)
    return sel


def decide(prop, tier, res, t0, extra=None):
    spec = properties.PROPS[prop]
    errors = []
    # anchors must resolve
    fn_paths = set()
    for e in res["entries"]:
        fn_paths.add(e["fn"])
    all_fns = set(res.get("all_fns", []))
    for a in spec.get("anchors", []):
        if not any(p.endswith(a) or a in p for p in all_fns):
            errors.append(f"anchor missing: {a}")
    sel = select_entries(prop, res)
    if not sel and spec["entries"]:
        errors.append("no entry point selected")
    for e in sel:
        if "error" in e:
            errors.append(f"entry not analysed: {e['entry']}: {e['error']}")
    # HIR constructs the exporter does not lower are `unsupported` nodes: an entry point that evaluates one is reported
    # as not analysed (below); the others are unaffected
    obligations = []
    for e in sel:
        for o in e.get("obligations", []):
            obligations.append(o)
    # structural rules
    rule_inst = []
    rule_viol = []
    for rname in spec.get("rules", []):
        r = res["rules"].get(rname)
        if r is None:
            errors.append(f"rule {rname} did not run")
            continue
        if "error" in r:
            errors.append(f"rule {rname}: {r['error']}")
            continue
        inst = [i for i in r.get("instances", []) if prop in i.get("props", [prop])]
        viol = [v for v in r.get("violations", []) if prop in v.get("props", [prop])]
        floor = r.get("floors", {}).get(prop, r.get("floor", 0))
        if len(inst) < floor:
            errors.append(f"rule {rname}: {len(inst)} instances < floor {floor}")
        for i in inst:
            rule_inst.append(dict(i, rule=rname))
        for v in viol:
            rule_viol.append(dict(v, rule=rname))
        for u in r.get("undecided", []):
            if prop in u.get("props", [prop]):
                errors.append(f"not decided: rule {rname}: {u['msg']}")
    floor_msgs = floors(prop, res, sel, obligations)
    errors.extend(floor_msgs)
    if extra:
        for m in extra.get("errors", []):
            errors.append(m)

    known = known_findings()
    # failures inside an entry point that called something the analysis has no model for, and spec
    # clauses whose actual value was summarised, are "not decided": no alarm, exit status 2
    unmod_entries = {e["entry"]: e.get("unmodelled", []) for e in sel if e.get("unmodelled")}
    undecided = [o for o in obligations if o["status"] == "undecided"]
    for o in obligations:
        if o["status"] == "failed" and o.get("entry") in unmod_entries:
            o["status"] = "undecided"
            o["detail"] = "entry point calls unmodelled " + ", ".join(unmod_entries[o["entry"]]) + "; " + o.get("detail", "")
            undecided.append(o)
    seen_u = set()
    for o in undecided:
        k = (o["fn"], o["what"])
        if k in seen_u:
            continue
        seen_u.add(k)
        errors.append(f"not decided: {o['kind']} {o['what']} in {o['fn']} ({o.get('detail', '')[:160]})")
    failed = [o for o in obligations if o["status"] == "failed"]
    viol_keys = {}
    known_hit = {}
    premise_entries = {e["entry"] for e in sel if e.get("premise_of")}
    known_any = {}
    for (p_, k_), txt in known.items():
        known_any.setdefault(k_, txt)
    for o in failed:
        k = ob_key(o)
        hit = known_lookup(known, prop, k)
        if hit is not None:
            known_hit[k] = hit
        elif o.get("entry") in premise_entries and (k in known_any or k.split(" :: ", 1)[0] in known_any):
            # a listed finding inside an operation this property only relies on: the same finding, not a new one
            known_hit[k] = known_any.get(k) or known_any[k.split(" :: ", 1)[0]]
        else:
            viol_keys.setdefault(k, o)
    for v in rule_viol:
        k = f"{v['rule']}|{v['key']}"
        if (prop, k) in known:
            known_hit[k] = known[(prop, k)]
        else:
            viol_keys.setdefault(k, {"kind": v["rule"], "fn": v.get("fn", ""), "what": v.get("what", ""),
                                     "goal": v.get("msg", ""), "sp": v.get("sp", ""), "entry": v.get("fn", ""),
                                     "detail": v.get("detail", ""), "chain": [], "status": "failed", "method": ""})

    wall = time.time() - t0
    status = 0
    if errors:
        for m in errors:
            print(f"ANALYSIS-ERROR: property={prop} {m}")
        status = 2
    for k, text in sorted(known_hit.items()):
        print(f"KNOWN-FINDING: property={prop} {text} [{k[:200]}]")
    if viol_keys:
        fd = os.path.join(OUT, "findings", prop)
        os.makedirs(fd, exist_ok=True)
        for k, o in sorted(viol_keys.items()):
            path = os.path.join(fd, short_key(k) + ".json")
            with open(path, "w") as fh:
                json.dump({"property": prop, "key": k, "obligation": o, "tree": res.get("tree")}, fh, indent=1)
            print(f"VIOLATION property={prop} replay={path}")
            print(f"  {o['kind']} {o['what']} in {o['fn']} at {o.get('sp', '?')} (entry {o.get('entry', '?')})")
            print(f"  goal: {o['goal'][:400]}")
            if o.get("detail"):
                print(f"  {o['detail'][:500]}")
        status = 1      # a violation was found (analysis errors, if any, are printed as well)
    write_evidence(prop, tier, res, sel, obligations, rule_inst, rule_viol, known_hit, viol_keys, errors, wall, extra)
    n_dis = sum(1 for o in obligations if o["status"] in ("discharged", "assumed", "requires"))
    print(f"{prop}: {len(sel)} entry points, {len(obligations)} obligations ({n_dis} discharged/assumed, "
          f"{len(failed)} failed: {len(known_hit)} known, {len(viol_keys)} new), {len(rule_inst)} rule instances, "
          f"analysis {'cached' if res.get('cached') else 'fresh'} ({res.get('export_and_analysis_s', '?')}s), wall {wall:.1f}s")
    return status


def floors(prop, res, sel, obligations):
    """Fail closed when the analysed program shrinks below what was confirmed on the pinned tree."""
    import floors_table
    msgs = []
    fl = floors_table.FLOORS.get(prop, {})
    if "entries" in fl and len(sel) < fl["entries"]:
        msgs.append(f"{len(sel)} entry points < floor {fl['entries']}")
    if "obligations" in fl and len(obligations) < fl["obligations"]:
        msgs.append(f"{len(obligations)} obligations < floor {fl['obligations']}")
    inv = res.get("inventory", {})
    g = floors_table.GLOBAL
    if inv.get("body_owners", 0) < g["body_owners"]:
        msgs.append(f"body owners {inv.get('body_owners')} < sanity floor {g['body_owners']}")
    if inv.get("mir_calls_not_in_hir"):
        m = inv["mir_calls_not_in_hir"][0]
        msgs.append(f"export incomplete: MIR call edge {m['callee']} in {m['fn']} has no HIR counterpart "
                    f"({len(inv['mir_calls_not_in_hir'])} such edges)")
    if inv.get("unwrap_expect", 0) < g["unwrap_expect"]:
        msgs.append(f"unwrap/expect sites {inv.get('unwrap_expect')} < sanity floor {g['unwrap_expect']}")
    return msgs


def write_evidence(prop, tier, res, sel, obligations, rule_inst, rule_viol, known_hit, viol_keys, errors, wall, extra=None):
    spec = properties.PROPS[prop]
    import rules_terms
    import contracts
    import prims
    by_kind = {}
    by_method = {}
    for o in obligations:
        by_kind[o["kind"]] = by_kind.get(o["kind"], 0) + 1
        m = o["method"].split(":")[0] if o["method"] else ("failed" if o["status"] == "failed" else "lp")
        by_method[m] = by_method.get(m, 0) + 1
    n_ob = len(obligations) + len(rule_inst)
    n_failed = sum(1 for o in obligations if o["status"] == "failed") + len(rule_viol)
    samples = []
    seen_fn = set()
    for o in obligations:
        if o["fn"] in seen_fn or len(samples) >= 8:
            continue
        seen_fn.add(o["fn"])
        samples.append({"kind": o["kind"], "function": o["fn"], "site": o["sp"], "what": o["what"],
                        "goal": o["goal"][:300], "status": o["status"], "method": o["method"]})
    for i in rule_inst[:6]:
        samples.append({"rule": i["rule"], "instance": i.get("name", ""), "site": i.get("sp", ""),
                        "verdict": i.get("verdict", "holds")})
    lemmas_used = {}
    for o in obligations:
        if o["method"] in rules_terms.RULES:
            lemmas_used[o["method"]] = lemmas_used.get(o["method"], 0) + 1
    assumed = {}
    for o in obligations:
        if o["status"] == "assumed":
            assumed[o["method"]] = assumed.get(o["method"], 0) + 1
    requires = sorted({o["method"] for o in obligations if o["status"] == "requires"})
    trusted = ["rustc name/type resolution (ohx exports the type-checked HIR)",
               "array contract axioms (src/array/traits.rs docs): " + ", ".join(sorted(prims.AXIOMS)),
               "no overflow of usize additions/multiplications of sizes"]
    for r, n in sorted(lemmas_used.items()):
        trusted.append(f"rule {r} (used {n}x): {rules_terms.RULES[r]}")
    for r, n in sorted(res.get("term_rules", {}).items()):
        if r in rules_terms.RULES:
            trusted.append(f"term rule {r} (used {n}x in this analysis run): {rules_terms.RULES[r]}")
    assumptions = []
    for a, n in sorted(assumed.items()):
        nm = a.split(":", 1)[1] if ":" in a else a
        assumptions.append(f"{nm}: {contracts.ASSUMPTIONS.get(nm, 'documented user contract')} ({n} obligations rest on it)")
    for a in sorted(res.get("assumptions", {})):
        txt = f"{a}: {contracts.ASSUMPTIONS.get(a, '')}"
        if not any(x.startswith(a + ":") for x in assumptions):
            assumptions.append(txt + " (used somewhere in this analysis run)")
    for r in requires:
        assumptions.append("documented precondition kept as requires — " + r)
    for e in sel:
        for a in e.get("assumed_at_entry", []):
            assumptions.append(f"entry {e['entry'].split('::')[-1]}: {a}")
    assumptions.append("arguments of every analysed entry point satisfy their struct invariants (well-formed inputs)")
    cov = {
        "obligations": n_ob,
        "discharged": n_ob - n_failed,
        "checker_cmd": f"./check {prop} --tier {tier}",
        "trusted_base": trusted,
        "explanation": "static analysis over the type-checked program exported by the ohx rustc driver: " + spec["clause"],
        "clause_decided": spec["clause"],
        "entry_points_analysed": [e["entry"] for e in sel if not e.get("premise_of")],
        "premises_analysed": [{"operation": e["entry"], "called_by": e["premise_of"]} for e in sel if e.get("premise_of")],
        "premises_rule": "the public operations the property's entry points call directly (through crate-private "
                         "helpers; trait methods resolved when the crate has one implementation — the Vec backend's "
                         "array primitives): their own clauses are premises of the property's proof and are part of "
                         "this check",
        "functions_reached": sorted({o["fn"] for o in obligations}),
        "obligations_by_kind": by_kind,
        "discharge_methods": by_method,
        "rule_instances": [{"rule": i["rule"], "name": i.get("name", ""), "site": i.get("sp", "")} for i in rule_inst][:200],
        "rule_violations": len(rule_viol),
        "known_findings": sorted(known_hit.values()),
        "new_violations": len(viol_keys),
        "analysis_errors": errors,
        "unmodelled_calls": res.get("unmodelled", {}),
        "uninterpreted_pure_std_calls": res.get("uninterpreted", {}),
        "loops": [l for l in res.get("loops", []) if any(l["fn"] == o["fn"] for o in obligations)][:20],
        "program": res.get("facts", {}),
        "inventory": {k: v for k, v in res.get("inventory", {}).items() if k != "fns_by_module"},
        "samples": samples,
        "evaluations": max(1, n_ob),
        "distinct_nontrivial": max(2, len({(o["fn"], o["kind"], o["what"], o["goal"]) for o in obligations}) + len(rule_inst)),
        "rule": "one obligation per panic path / primitive precondition / invariant condition / spec clause on each "
                "symbolic path of each analysed entry point (symbolic sizes: no input bound); distinct = distinct "
                "(function, kind, site, normalised goal)",
        "exhaustive": False,
        "tree": res.get("tree"),
    }
    if extra:
        cov["sensitivity_selftest"] = extra.get("summary", {})
    level = spec["level"]
    if n_failed and level == "proof":
        level = "other"     # a proof-level claim needs every obligation discharged
    ev = {"property_id": prop, "tier": tier, "seed": int(os.environ.get("VERIF_SEED", "0") or 0),
          "level": level, "coverage": cov, "assumptions": assumptions, "wall_s": round(wall, 3),
          "violations": len(viol_keys)}
    os.makedirs(os.path.join(OUT, "evidence"), exist_ok=True)
    with open(os.path.join(OUT, "evidence", prop + ".json"), "w") as fh:
        json.dump(ev, fh, indent=1)


def replay(prop, path, res):
    with open(path) as fh:
        f = json.load(fh)
    key = f["key"]
    print(f"replaying {prop} finding {path}")
    print(f"  key: {key[:600]}")
    sel = select_entries(prop, res)
    hit = None
    for e in sel:
        for o in e.get("obligations", []):
            if ob_key(o) == key:
                hit = o
                if o["status"] == "failed":
                    break
    if hit is None:
        for r in res["rules"].values():
            for v in r.get("violations", []) if isinstance(r, dict) else []:
                if f"{v.get('rule', '')}|{v['key']}" == key or key.endswith(v["key"]):
                    hit = {"status": "failed", "kind": "rule", "fn": v.get("fn", ""), "sp": v.get("sp", ""),
                           "goal": v.get("msg", ""), "detail": v.get("detail", ""), "what": ""}
    if hit is None:
        print("  the obligation no longer exists on the current tree (site removed or goal changed)")
        return 0
    print(f"  on the current tree: {hit['status']} — {hit['kind']} {hit['what']} in {hit['fn']} at {hit['sp']}")
    print(f"  goal: {hit['goal'][:800]}")
    if hit.get("detail"):
        print(f"  {hit['detail'][:1500]}")
    if hit["status"] == "failed":
        print(f"VIOLATION property={prop} replay={path}")
        return 1
    return 0
