"""Thorough tier: sensitivity self-test ("checker tested both ways").  Every seeded change under
/verif/seeded that this property's check is recorded to catch is applied to a scratch copy of /repo's
current working tree (outside /repo and /verif, removed afterwards) and the check is re-run there: it must
report a violation.  A seed that no longer applies to the current tree is skipped and reported."""
import json
import os
import shutil
import subprocess
import tempfile

HERE = os.path.dirname(os.path.abspath(__file__))
VERIF = os.path.dirname(HERE)
REPO = os.environ.get("OHSA_REPO", "/repo")


def seeds_for(prop):
    out = []
    base = os.path.join(VERIF, "seeded")
    if not os.path.isdir(base):
        return out
    for sid in sorted(os.listdir(base)):
        mp = os.path.join(base, sid, "meta.json")
        if not os.path.exists(mp):
            continue
        meta = json.load(open(mp))
        if "reported_by" in meta:
            # the list recorded by dev/sweep_seeds.py --write (every check that reported this change)
            if prop in meta["reported_by"]:
                out.append((sid, os.path.join(base, sid, "patch.diff")))
            continue
        caught = " ".join(meta.get("caught_by", []))
        if prop in caught.replace(",", " ").split() or any(prop in c.split("(")[0] for c in meta.get("caught_by", [])):
            out.append((sid, os.path.join(base, sid, "patch.diff")))
    return out


MAX_SEEDS = int(os.environ.get("OHSA_SELFTEST_MAX", "24"))


def _select(prop, seeds):
    """At most MAX_SEEDS per run (a thorough check has to end in minutes, not hours): the changes seeded for this very
    property first, then the others, in a fixed order."""
    own = [s for s in seeds if s[0].startswith(prop + "-")]
    rest = [s for s in seeds if not s[0].startswith(prop + "-")]
    return (own + rest)[:MAX_SEEDS]


def _one(prop, sid, patch):
    d = tempfile.mkdtemp(prefix="ohg-selftest-")
    try:
        subprocess.run(["rsync", "-a", "--exclude", "target", "--exclude", ".git", REPO + "/", d + "/repo/"],
                       capture_output=True, text=True)
        ap = subprocess.run(["patch", "-p1", "-s", "-d", d + "/repo", "-i", patch], capture_output=True, text=True)
        if ap.returncode != 0:
            return sid, "skipped", None
        env = dict(os.environ, OHSA_REPO=d + "/repo", OHSA_CACHE=d + "/cache", OHSA_OUT=d + "/out",
                   OHSA_NO_SELFTEST="1")
        rr = subprocess.run(["python3", os.path.join(HERE, "check.py"), prop, "--tier", "quick"], env=env,
                            capture_output=True, text=True, timeout=1800)
        nv = sum(1 for l in rr.stdout.splitlines() if l.startswith("VIOLATION"))
        return sid, nv, rr.returncode
    finally:
        shutil.rmtree(d, ignore_errors=True)


def run(prop):
    """Seeds are independent scratch copies: four at a time (each analysis is itself parallel)."""
    from concurrent.futures import ThreadPoolExecutor
    summary = {"seeds": [], "detected": 0, "skipped": 0}
    errors = []
    all_seeds = seeds_for(prop)
    seeds = _select(prop, all_seeds)
    summary["recorded_for_property"] = len(all_seeds)
    with ThreadPoolExecutor(max_workers=4) as ex:
        results = list(ex.map(lambda sp: _one(prop, sp[0], sp[1]), seeds))
    for sid, nv, rc in results:
        if nv == "skipped":
            summary["seeds"].append({"seed": sid, "result": "skipped: patch does not apply to the current tree"})
            summary["skipped"] += 1
        elif nv > 0:
            summary["detected"] += 1
            summary["seeds"].append({"seed": sid, "result": f"detected ({nv} violation lines)"})
        else:
            summary["seeds"].append({"seed": sid, "result": "NOT detected", "exit": rc})
            errors.append(f"sensitivity self-test: seeded change {sid} is no longer detected by {prop} (exit {rc})")
    return {"summary": summary, "errors": errors}
