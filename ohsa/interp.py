"""E1 shapecheck: abstract interpreter over the typed HIR exported by ohx.

Values are symbolic (see values.py).  Every panic path (failed unwrap/expect, assert,
explicit panic, violated precondition of an array primitive, subtraction underflow) is an
obligation: the path must be infeasible.  Checked constructors and struct invariants are
handled in inv.py; this module is the evaluator.
"""
import sys
from poly import Poly, as_poly, show_poly
from values import *
import prims
import stdlib

sys.setrecursionlimit(10000)


# trait methods called on a generic `Self` inside a trait default method: analysed at the
# crate's strict implementation
GENERIC_INSTANCES = {
    "category::spider::Spider::spider":
        "<strict::open_hypergraph::arrow::OpenHypergraph<K, O, A> as category::spider::Spider<K>>::spider",
}


USER_ASSUMPTION = {"apply": "A_E", "residual": "A_R", "map_operations": "A_F2", "map_arrow": "A_F3",
                   "lax_map_operation": "A_L", "lax_map_object": "A_L"}


def user_origin(x):
    """Name of the user contract a polynomial/term depends on (through a ('user', kind, ...) leaf)."""
    if isinstance(x, Poly):
        for a in x.atoms():
            r = user_origin(a)
            if r:
                return r
        return None
    if isinstance(x, tuple):
        if len(x) >= 2 and x[0] == "user" and isinstance(x[1], str):
            return USER_ASSUMPTION.get(x[1], "A_U")
        for y in x:
            r = user_origin(y)
            if r:
                return r
    return None


class Frame:
    _next = [0]

    def __init__(self, fn, parent=None, site=None):
        Frame._next[0] += 1
        self.id = Frame._next[0]
        self.fn = fn              # IR function dict (or None for synthetic frames)
        self.parent = parent
        self.depth = (parent.depth + 1) if parent else 0
        self.site = site          # call-site expression in the parent
        self.loop_ix = 0
        self.mac = None

    def chain(self):
        out = []
        f = self
        while f is not None:
            if f.fn is not None:
                out.append(f.fn["path"])
            f = f.parent
        return list(reversed(out))


class Unsupported(Exception):
    pass


class Obligation:
    __slots__ = ("kind", "fn", "chain", "sp", "what", "goal", "status", "method", "entry", "detail", "key")

    def __init__(self, kind, fn, chain, sp, what, goal, status, method, entry, detail=""):
        self.kind = kind
        self.fn = fn
        self.chain = chain
        self.sp = sp
        self.what = what
        self.goal = goal
        self.status = status      # 'discharged' | 'failed' | 'assumed' | 'requires'
        self.method = method
        self.entry = entry
        self.detail = detail
        self.key = f"{kind}|{fn}|{what}|{goal}"

    def to_json(self):
        return {"kind": self.kind, "fn": self.fn, "entry": self.entry, "sp": self.sp, "what": self.what,
                "goal": self.goal, "status": self.status, "method": self.method, "chain": self.chain,
                "detail": self.detail}


def _complementary(f, g):
    """Is the linear fact g the negation of f over the naturals (or stronger than it)?"""
    (k1, p1), (k2, p2) = f, g
    one = Poly.const(1)
    if k1 == "eq":
        return (k2 == "ne" and (p2 == p1 or p2 == Poly.const(0) - p1)) or \
               (k2 == "ge" and (p2 == p1 - one or p2 == Poly.const(0) - p1 - one))
    if k1 == "ne" or (k1 == "ge" and k2 == "eq"):
        return _complementary(g, f) if k2 == "eq" else False
    if k1 == "ge" and k2 == "ge":
        return p2 == Poly.const(0) - p1 - one
    return False


def _same_under(st, x, y):
    """x and y denote the same value on every concrete state of st."""
    if x is y:
        return True
    if isinstance(x, VSeq) and isinstance(y, VSeq):
        return terms_equal(st, x.t, y.t)
    if isinstance(x, VNat) and isinstance(y, VNat):
        return st.eq(x.p, y.p)
    if isinstance(x, VRec) and isinstance(y, VRec):
        return x.ty == y.ty and set(x.f) == set(y.f) and all(_same_under(st, x.f[k], y.f[k]) for k in x.f)
    if isinstance(x, VTup) and isinstance(y, VTup):
        return len(x.items) == len(y.items) and all(_same_under(st, p, q) for p, q in zip(x.items, y.items))
    if isinstance(x, VEnum) and isinstance(y, VEnum):
        return x.variant == y.variant and len(x.payload) == len(y.payload) and \
            all(_same_under(st, p, q) for p, q in zip(x.payload, y.payload))
    if isinstance(x, VUser) and isinstance(y, VUser):
        return x.key == y.key
    if isinstance(x, VBool) and isinstance(y, VBool):
        return x.f == y.f
    if isinstance(x, VUnit) and isinstance(y, VUnit):
        return True
    if isinstance(x, VMutRef) and isinstance(y, VMutRef):
        return x.place == y.place
    if isinstance(x, VRange) and isinstance(y, VRange):
        return _same_under(st, x.lo, y.lo) and _same_under(st, x.hi, y.hi) and getattr(x, "incl", False) == getattr(y, "incl", False)
    return False


class Interp:
    def __init__(self, facts, config=None):
        self.facts = facts
        self.config = config or {}
        self.obligations = []
        self.unmodelled = {}
        self.uninterpreted = {}
        # GSC (shortcuts agree with the general path under their own condition) was built and calibrated: on the pinned
        # tree it decides 45 sites and cannot decide 76 (loop-carried values); a "not provably equal" verdict on precise
        # terms is not a proof of difference, so arming it would trade misses for false alarms.  Kept, not armed.
        self.gsc_enabled = bool(__import__("os").environ.get("OHSA_GSC"))
        self.merge_shortcuts = not __import__("os").environ.get("OHSA_NOJOIN")
        self.assumptions = {}
        self.lemma_uses = {}
        self.entry = None
        self.max_depth = 14
        self.stats = {"calls_inlined": 0, "prim_calls": 0, "std_calls": 0, "paths": 0, "user_calls": 0}
        self.trace = False
        self.loop_info = []
        self.entry_unmodelled = {}

    # ------------------------------------------------------------------ obligations
    def oblige(self, kind, fr, node, what, goal, ok, method="", detail="", status=None):
        fn = fr.fn["path"] if fr and fr.fn else "?"
        sp = node.get("sp", "?") if isinstance(node, dict) else "?"
        st = status or ("discharged" if ok else "failed")
        ob = Obligation(kind, fn, fr.chain() if fr else [], sp, what, goal, st, method, self.entry, detail)
        self.obligations.append(ob)
        return ob

    def panic_path(self, st, fr, node, kind, what):
        """A path reaches a panic: the obligation is that the path is infeasible."""
        if st.infeasible() or (self.saturate_empty(st) and st.infeasible()):
            self.oblige(kind, fr, node, what, self.path_goal(st), True, "infeasible-path")
            return
        # term disequalities assumed on this path: try to refute them
        for (a, b, origin) in st.tne:
            if terms_equal(st, a, b):
                self.oblige(kind, fr, node, what, self.path_goal(st), True, "terms-equal")
                return
            r = self.try_rules(st, a, b)
            if r:
                self.oblige(kind, fr, node, what, self.path_goal(st), True, r)
                return
            # the same after the degenerate-case simplifications this path's facts allow (an operand known to be
            # empty, a zero offset, ...), applied everywhere inside the terms
            a2, b2 = deep_degenerate(st, a), deep_degenerate(st, b)
            if (a2, b2) != (a, b):
                if terms_equal(st, a2, b2):
                    self.oblige(kind, fr, node, what, self.path_goal(st), True, "terms-equal")
                    return
                r = self.try_rules(st, a2, b2)
                if r:
                    self.oblige(kind, fr, node, what, self.path_goal(st), True, r)
                    return
        if what.startswith("debug_assert"):
            # the library stating the contract of user-supplied code (DESIGN §4.5)
            for (a, b, origin) in st.tne:
                if user_origin(a) or user_origin(b):
                    self.assumptions["A_O"] = self.assumptions.get("A_O", 0) + 1
                    self.oblige(kind, fr, node, what, self.path_goal(st), True, "assumption:A_O", status="assumed")
                    return
        for (key, pol) in st.unk:
            if key[0] == "user-contract":
                self.assumptions[key[1]] = self.assumptions.get(key[1], 0) + 1
                self.oblige(kind, fr, node, what, self.path_goal(st), True, "assumption:" + key[1], status="assumed")
                return
        import specs
        if fr is not None and fr.fn is not None:
            why = None
            f_ = fr
            while f_ is not None and why is None:
                if f_.fn is not None:
                    why = specs.documented_panic(f_.fn["path"], what, st)
                f_ = f_.parent
            if why:
                self.oblige(kind, fr, node, what, self.path_goal(st), True, "documented: " + why, status="requires")
                return
        if fr is not None and fr.fn is not None and fr.parent is not None and fr.parent.fn is None:
            why = specs.documented_require(fr.fn["path"], what)
            if why:
                self.oblige(kind, fr, node, what, self.path_goal(st), True, "documented: " + why, status="requires")
                return
        self.oblige(kind, fr, node, what, self.path_goal(st), False, "", detail=self.describe(st))

    def saturate_bounds(self, st):
        """Natural numbers below an upper bound that is <= 0 do not exist: such arrays are empty."""
        added = False
        for term, bs in list(st.bnd.items()):
            n = t_len(term)
            if n.is_const():
                continue
            for b in bs:
                if (b.is_const() and b.const_value() <= 0) or (not b.is_const() and st.ge(0, b)):
                    if st.lin.add("eq", n):
                        added = True
                    break
        return added

    def saturate_empty(self, st):
        """sum(x) = 0 for every array x of provably zero length that the facts mention."""
        added = False
        atoms = set()
        for k, p in st.lin.facts:
            atoms |= p.atoms()
        for a in atoms:
            if isinstance(a, tuple) and a and a[0] == "sum":
                t = a[1]
                if st.eq(t_len(t), 0):
                    if st.lin.add("eq", Poly.atom(a)):
                        added = True
        return added

    def path_goal(self, st):
        # the normalised reason the path is (or should be) infeasible: last decisions
        return " ∧ ".join(st.path[-3:]) if st.path else "reachable"

    def describe(self, st):
        facts = []
        for k, p in st.lin.facts[-12:]:
            facts.append(f"{show_poly(p)} {'>=' if k == 'ge' else '==' if k == 'eq' else '!='} 0")
        tn = [f"{show_term(a)} ≢ {show_term(b)}" for a, b, _ in st.tne]
        return "path: " + " ; ".join(st.path[-6:]) + " | facts: " + " , ".join(facts) + (" | tne: " + " , ".join(tn) if tn else "")

    def try_rules(self, st, a, b):
        """Sound inference rules beyond normalisation for refuting `a ≢ b`. Returns rule name."""
        from rules_terms import refute_tne
        r = refute_tne(self, st, a, b)
        if r:
            self.lemma_uses[r] = self.lemma_uses.get(r, 0) + 1
        return r

    def require(self, st, fr, node, kind, what, goal_txt, ok):
        """A precondition obligation with a boolean verdict already computed."""
        if not ok and fr is not None and fr.fn is not None and fr.parent is not None and fr.parent.fn is None:
            import specs
            why = specs.documented_require(fr.fn["path"], what)
            if why:
                self.oblige(kind, fr, node, what, goal_txt, True, "documented: " + why, status="requires")
                return ok
        self.oblige(kind, fr, node, what, goal_txt, ok, "lp" if ok else "", detail="" if ok else self.describe(st))
        return ok

    def pre_ge(self, st, fr, node, what, a, b, txt=None):
        """PRE: a >= b"""
        a, b = as_poly(a), as_poly(b)
        ok = st.ge(a, b)
        self.require(st, fr, node, "PRE", what, txt or f"{show_poly(a)} >= {show_poly(b)}", ok)
        if not ok:
            st.add_ge(a - b)  # continue under the assumption (one report per defect)
        return ok

    def pre_eq(self, st, fr, node, what, a, b, txt=None):
        a, b = as_poly(a), as_poly(b)
        ok = st.eq(a, b) or (self.saturate_empty(st) and st.eq(a, b))
        if not ok:
            # a dimension of a value returned by user-supplied code: the documented contract
            u = user_origin(a - b)
            if u:
                self.assumptions[u] = self.assumptions.get(u, 0) + 1
                self.oblige("PRE", fr, node, what, txt or f"{show_poly(a)} == {show_poly(b)}", True,
                            "assumption:" + u, status="assumed")
                st.add_eq(a - b)
                return True
        self.require(st, fr, node, "PRE", what, txt or f"{show_poly(a)} == {show_poly(b)}", ok)
        if not ok:
            st.add_eq(a - b)
        return ok

    def pre_bound(self, st, fr, node, what, term, B, txt=None):
        B = as_poly(B)
        ok = prove_bound(st, term, B)
        self.require(st, fr, node, "PRE", what, txt or f"ub({show_term(term)}) <= {show_poly(B)}", ok)
        if not ok:
            st.add_bound(term, B)
        return ok

    def unmodelled_call(self, name, fr, node):
        self.unmodelled.setdefault(name, []).append(node.get("sp", "?"))
        self.entry_unmodelled.setdefault(self.entry, set()).add(name)

    # ------------------------------------------------------------------ assume
    def assume(self, st, f, note=None):
        """Return the list of feasible states refining st with formula f."""
        k = f[0]
        if k == "true":
            return [st]
        if k == "false":
            return []
        if k == "and":
            out = []
            for s1 in self.assume(st, f[1], note):
                out.extend(self.assume(s1, f[2], None))
            return out
        if k == "or":
            out = self.assume(st.copy(), f[1], note)
            out += self.assume(st.copy(), f_and(f_not(f[1]), f[2]), note)
            return out
        if k == "cmp":
            s = st.copy()
            kind, p = f[1], f[2]
            if p.is_const():
                c = p.const_value()
                truth = (c >= 0) if kind == "ge" else (c == 0) if kind == "eq" else (c != 0)
                return [st] if truth else []
            if not s.lin.add(kind, p):
                return [s]
            s.note(show_formula(f))
            from poly import infeasible_rel
            if infeasible_rel(s.lin, (kind, p)):
                return []
            return [s]
        if k == "teq":
            a, b = f[1], f[2]
            if a == b:
                return [st]
            s = st.copy()
            lp = t_len(a) - t_len(b)
            if s.lin.add("eq", lp):
                from poly import infeasible_rel
                if infeasible_rel(s.lin, ("eq", lp)):
                    return []
            import lax_model
            if not lax_model.label_of(a) and not lax_model.label_of(b):
                s.lin.add("eq", t_sum(a) - t_sum(b))    # equal arrays have equal sums
            # orient: larger -> smaller
            na, nb = normalise(s, a), normalise(s, b)
            if na != nb:
                if term_size(na) >= term_size(nb):
                    s.teq = s.teq + ((na, nb),)
                else:
                    s.teq = s.teq + ((nb, na),)
            s.note(show_formula(f))
            return [s]
        if k == "not":
            g = f[1]
            if g[0] == "teq":
                a, b = g[1], g[2]
                if terms_equal(st, a, b):
                    return []
                s = st.copy()
                s.tne = s.tne + ((a, b, note),)
                s.note("¬(" + show_formula(g) + ")")
                return [s]
            if g[0] == "unk":
                if (g[1], True) in st.unk:
                    return []
                s = st.copy()
                s.unk = s.unk + ((g[1], False),)
                s.note("¬?" + str(g[1]))
                if isinstance(g[1], tuple) and len(g[1]) == 3 and g[1][0] == "flag":
                    flag_read_fact(s, g[1][1], False)
                return [s]
            return self.assume(st, f_not(g), note)
        if k == "unk":
            if (f[1], False) in st.unk:
                return []
            s = st.copy()
            s.unk = s.unk + ((f[1], True),)
            s.note("?" + str(f[1]))
            if isinstance(f[1], tuple) and len(f[1]) == 3 and f[1][0] == "flag":
                flag_read_fact(s, f[1][1], True)
            return [s]
        raise Unsupported("formula " + str(k))

    def branch(self, st, f):
        """(states where f holds, states where f fails)"""
        return self.assume(st, f), self.assume(st, f_not(f))

    # ------------------------------------------------------------------ places
    def read_place(self, st, place):
        root, path = place
        v = st.env.get(root)
        if v is None:
            raise Unsupported(f"unbound place {root}")
        for comp in path:
            while isinstance(v, VMutRef):
                v = self.read_place(st, v.place)
            v = self.project(st, v, comp)
        return v

    def project(self, st, v, comp):
        if isinstance(comp, tuple) and comp[0] == "idx":
            return stdlib.index_value(self, st, v, comp[1])
        if isinstance(comp, tuple) and comp[0] == "range":
            import lax_model
            while isinstance(v, VMutRef):
                v = self.read_place(st, v.place)
            if isinstance(v, VSeq):
                return VSeq(lax_model.mk_slice(st, v.t, comp[1], comp[2]))
            return VTop("slice of " + type(v).__name__)
        if isinstance(v, VRec):
            if comp in v.f:
                return v.f[comp]
            raise Unsupported(f"no field {comp} in {v.ty}")
        if isinstance(v, VTup):
            return v.items[int(comp)]
        if isinstance(v, VTop):
            return VTop(v.why + "." + str(comp))
        if comp == "0" and isinstance(v, (VNat, VSeq)):
            return v       # transparent newtypes (NodeId, EdgeId, VecArray)
        raise Unsupported(f"project {comp} from {type(v).__name__}")

    def write_place(self, st, place, val):
        root, path = place
        cur = st.env.get(root)
        if not path:
            if isinstance(cur, VMutRef):
                # writing through a reference held in a local: `*r = v` is handled by eval_place
                pass
            st.env[root] = val
            return
        st.env[root] = self._update(st, cur, path, val)

    def _update(self, st, v, path, val):
        if not path:
            return val
        comp = path[0]
        if isinstance(v, VMutRef):
            # the reference itself is not changed: write through
            inner = self.read_place(st, v.place)
            self.write_place(st, v.place, self._update(st, inner, path, val))
            return v
        if isinstance(comp, tuple) and comp[0] == "idx":
            return stdlib.update_index(self, st, v, comp[1], path[1:], val)
        if isinstance(comp, tuple) and comp[0] == "range" and not path[1:]:
            import lax_model
            if isinstance(v, VSeq) and isinstance(val, VSeq):
                lo, hi = comp[1], comp[2]
                return VSeq(mk_concat([lax_model.mk_slice(st, v.t, Poly.const(0), lo), val.t,
                                       lax_model.mk_slice(st, v.t, hi, t_len(v.t))]))
            return VTop("range write")
        if isinstance(v, VRec):
            return v.with_field(comp, self._update(st, v.f[comp], path[1:], val))
        if isinstance(v, VTup):
            items = list(v.items)
            items[int(comp)] = self._update(st, items[int(comp)], path[1:], val)
            return VTup(items)
        if isinstance(v, VTop):
            return v
        if comp == "0" and isinstance(v, (VNat, VSeq)):
            return self._update(st, v, path[1:], val)
        raise Unsupported(f"update {comp} in {type(v).__name__}")

    def eval_place(self, e, st, fr):
        """Evaluate a place expression; returns (st, place)."""
        k = e["k"]
        if k == "path":
            r = e["res"]
            if r["k"] != "local":
                raise Unsupported("place of non-local path")
            key = (fr.id, r["id"])
            v = st.env.get(key)
            if isinstance(v, VMutRef) and "deref" in (e.get("adj") or []):
                return st, v.place
            return st, (key, ())
        if k == "field":
            st, (root, path) = self.eval_place(e["e"], st, fr)
            # look through references stored in the place
            base = self.read_place(st, (root, path))
            if isinstance(base, VMutRef):
                root, path = base.place
            return st, (root, path + (e["name"],))
        if k == "unary" and e["op"] == "*":
            outs = self.ev(e["args"][0], st, fr)
            st, v = self.single(outs, e)
            if isinstance(v, VMutRef):
                return st, v.place
            # deref of a shared reference to a local place
            return self.eval_place(e["args"][0], st, fr)
        if k == "index":
            st, (root, path) = self.eval_place(e["args"][0], st, fr)
            outs = self.ev(e["args"][1], st, fr)
            st, iv = self.single(outs, e)
            ip = iv.p if isinstance(iv, VNat) else None
            base = self.read_place(st, (root, path))
            if isinstance(base, VMutRef):
                root, path = base.place
                base = self.read_place(st, (root, path))
            if isinstance(iv, (VRange, VRec)) and not isinstance(iv, VNat):
                while isinstance(base, VRec) and set(base.f) == {"0"}:
                    path = path + ("0",)
                    base = base.f["0"]
                if isinstance(base, VSeq):
                    lo, hi = prims._range(self, st, base.t, iv)
                    self.pre_ge(st, fr, e, "slice", hi, lo, f"{show_poly(lo)} <= {show_poly(hi)}")
                    self.pre_ge(st, fr, e, "slice", t_len(base.t), hi, f"{show_poly(hi)} <= len({show_term(base.t)})")
                    return st, (root, path + (("range", lo, hi),))
            return st, (root, path + (("idx", ip),))
        if k in ("call", "block", "ref"):
            outs = self.ev(e, st, fr)
            st, v = self.single(outs, e)
            if isinstance(v, VMutRef):
                return st, v.place
            # a temporary: materialise in a fresh slot
            key = (fr.id, ("tmp", id(e)))
            st.env[key] = v
            return st, (key, ())
        raise Unsupported("place expr " + k)

    def single(self, outs, e):
        normal = [(s, v) for (s, v, c) in outs if c is None]
        if len(normal) != 1 or len(outs) != len(normal):
            raise Unsupported(f"expected a single normal outcome at {e.get('sp')}, got {len(normal)}/{len(outs)}")
        return normal[0]

    # ------------------------------------------------------------------ patterns
    def match_pat(self, pat, val, st, fr):
        """Returns (matched states, unmatched states)."""
        k = pat["k"]
        if k == "wild":
            return [st], []
        if k == "bind":
            s = st
            s.env[(fr.id, pat["id"])] = val
            if pat.get("sub"):
                return self.match_pat(pat["sub"], val, s, fr)
            return [s], []
        if k == "ref":
            return self.match_pat(pat["pat"], val, st, fr)
        while isinstance(val, VMutRef):
            # destructuring through a mutable reference: bind sub-places as references
            inner = self.read_place(st, val.place)
            if k in ("tuple", "struct", "tuple_struct") and isinstance(inner, (VRec, VTup)):
                return self._match_ref(pat, val.place, inner, st, fr)
            val = inner
        if k == "slice":
            # [p0, p1, ..] / [p0, rest @ .., pn] on a sequence: matches iff the length fits; elements are read by position
            import lax_model
            while isinstance(val, VRec) and set(val.f) == {"0"}:
                val = val.f["0"]
            if not isinstance(val, VSeq):
                raise Unsupported("slice pattern on " + type(val).__name__)
            nb, na = len(pat.get("before") or []), len(pat.get("after") or [])
            n = t_len(val.t)
            has_mid = pat.get("mid") is not None
            cond = ("cmp", "ge", n - (nb + na)) if has_mid else ("cmp", "eq", n - (nb + na))
            yes, no = self.branch(st, cond)
            matched = []
            for s1 in yes:
                states = [s1]
                for i, p in enumerate(pat.get("before") or []):
                    nxt = []
                    for s2 in states:
                        m, u = self.match_pat(p, lax_model.seq_elem(self, s2, val, Poly.const(i)), s2, fr)
                        nxt.extend(m)
                    states = nxt
                for j, p in enumerate(pat.get("after") or []):
                    nxt = []
                    for s2 in states:
                        m, u = self.match_pat(p, lax_model.seq_elem(self, s2, val, n - na + j), s2, fr)
                        nxt.extend(m)
                    states = nxt
                if has_mid:
                    nxt = []
                    for s2 in states:
                        m, u = self.match_pat(pat["mid"], VSeq(lax_model.mk_slice(s2, val.t, Poly.const(nb), n - na)), s2, fr)
                        nxt.extend(m)
                    states = nxt
                matched.extend(states)
            return matched, no
        if k == "tuple":
            if isinstance(val, VTop):
                items = [VTop(val.why) for _ in pat["pats"]]
            elif isinstance(val, VTup):
                items = val.items
            elif isinstance(val, VRec):
                items = [val.f[str(i)] for i in range(len(pat["pats"]))]
            else:
                raise Unsupported("tuple pattern on " + type(val).__name__)
            states = [st]
            for p, v in zip(pat["pats"], items):
                nxt = []
                for s in states:
                    m, u = self.match_pat(p, v, s, fr)
                    if u:
                        # refutable sub-pattern inside a tuple
                        return self._refutable_tuple(pat, items, st, fr)
                    nxt.extend(m)
                states = nxt
            return states, []
        if k == "struct":
            if isinstance(val, VTop):
                for f in pat["fields"]:
                    m, u = self.match_pat(f["pat"], VTop(val.why), st, fr)
                return [st], []
            if isinstance(val, VRec):
                for f in pat["fields"]:
                    m, u = self.match_pat(f["pat"], val.f[f["name"]], st, fr)
                return [st], []
            if isinstance(val, VEnum):
                r = pat["res"]
                name = r.get("path", "").split("::")[-1]
                if val.variant != name:
                    return [], [st]
                # struct-like variant payload is a dict in payload[0]
                if val.payload and isinstance(val.payload[0], dict):
                    d = val.payload[0]
                else:
                    d = {str(i): x for i, x in enumerate(val.payload)}
                states = [st]
                unm = []
                for f in pat["fields"]:
                    nxt = []
                    for s1 in states:
                        m, u = self.match_pat(f["pat"], d.get(f["name"], VTop("variant field")), s1, fr)
                        nxt.extend(m)
                        unm.extend(u)
                    states = nxt
                return states, unm
            raise Unsupported("struct pattern on " + type(val).__name__)
        if k == "tuple_struct":
            r = pat["res"]
            name = r.get("name") or r.get("path", "").split("::")[-1]
            if isinstance(val, VEnum):
                if val.variant != name:
                    return [], [st]
                states = [st]
                unm = []
                for p, v in zip(pat["pats"], val.payload):
                    nxt = []
                    for s in states:
                        m, u = self.match_pat(p, v, s, fr)
                        nxt.extend(m)
                        unm.extend(u)
                    states = nxt
                return states, unm
            if isinstance(val, VRec):
                # tuple struct (NodeId(x), SemifiniteFunction(x))
                states = [st]
                for i, p in enumerate(pat["pats"]):
                    nxt = []
                    for s in states:
                        m, u = self.match_pat(p, val.f[str(i)], s, fr)
                        nxt.extend(m)
                    states = nxt
                return states, []
            if isinstance(val, (VTop, VUser)):
                # unknown enum value: both outcomes possible
                s2 = st.copy()
                yes, no = [st], [s2]
                if isinstance(val, VUser) and name == "Some":
                    # the decision is a fact of the path (one uninterpreted boolean per option value)
                    key = ("is_some", val.key)
                    if (key, False) in st.unk:
                        return [], [s2]
                    if (key, True) in st.unk:
                        no = []
                    else:
                        st.unk = st.unk + ((key, True),)
                        s2.unk = s2.unk + ((key, False),)
                for i, p in enumerate(pat["pats"]):
                    if isinstance(val, VUser) and name == "Some":
                        inner = VNat(Poly.atom(("somev", val.key)))
                    else:
                        inner = VTop(getattr(val, "why", "user"))
                    self.match_pat(p, inner, st, fr)
                return yes, no
            if isinstance(val, VNat) and name in ("NodeId", "EdgeId"):
                return self.match_pat(pat["pats"][0], val, st, fr)
            raise Unsupported(f"tuple_struct pattern {name} on {type(val).__name__}")
        if k == "lit":
            if "res" in pat:
                r = pat["res"]
                name = r.get("name") or r.get("path", "").split("::")[-1]
                if isinstance(val, VEnum):
                    return ([st], []) if val.variant == name else ([], [st])
                if isinstance(val, VTop):
                    return [st], [st.copy()]
                raise Unsupported("path pattern on " + type(val).__name__)
            v = pat.get("v")
            if v in ("true", "false"):
                if isinstance(val, VBool):
                    f = val.f if v == "true" else f_not(val.f)
                    return self.branch(st, f)
                if isinstance(val, VTop):
                    return [st], [st.copy()]
            if isinstance(val, VNat):
                try:
                    c = int(v)
                except Exception:
                    raise Unsupported("literal pattern " + str(v))
                return self.branch(st, ("cmp", "eq", val.p - c))
            raise Unsupported("literal pattern on " + type(val).__name__)
        if k == "or":
            matched, rest = [], [st]
            for p in pat["pats"]:
                nxt = []
                for s in rest:
                    m, u = self.match_pat(p, val, s, fr)
                    matched.extend(m)
                    nxt.extend(u)
                rest = nxt
            return matched, rest
        raise Unsupported("pattern kind " + k)

    def _refutable_tuple(self, pat, items, st, fr):
        # all sub-patterns must match: conjunction
        states, unmatched = [st], []
        for p, v in zip(pat["pats"], items):
            nxt = []
            for s in states:
                m, u = self.match_pat(p, v, s, fr)
                nxt.extend(m)
                unmatched.extend(u)
            states = nxt
        return states, unmatched

    def _match_ref(self, pat, place, inner, st, fr):
        root, path = place
        k = pat["k"]
        if k == "tuple":
            for i, p in enumerate(pat["pats"]):
                self.match_pat(p, VMutRef((root, path + (str(i),))), st, fr)
            return [st], []
        if k == "struct":
            for f in pat["fields"]:
                self.match_pat(f["pat"], VMutRef((root, path + (f["name"],))), st, fr)
            return [st], []
        if k == "tuple_struct":
            for i, p in enumerate(pat["pats"]):
                self.match_pat(p, VMutRef((root, path + (str(i),))), st, fr)
            return [st], []
        raise Unsupported("ref pattern")

    # ------------------------------------------------------------------ evaluation
    def ev_seq(self, exprs, st, fr, k):
        """Evaluate expressions left to right; call k(st, [values]) on normal outcomes."""
        results = []

        def go(i, s, acc):
            if i == len(exprs):
                results.extend(k(s, acc))
                return
            for (s2, v, c) in self.ev_arg(exprs[i], s, fr):
                if c is not None:
                    results.append((s2, v, c))
                else:
                    go(i + 1, s2, acc + [v])
        go(0, st, [])
        return results

    def ev_arg(self, e, st, fr):
        adj = e.get("adj") or []
        if "borrow_mut" in adj:
            s, place = self.eval_place(e, st, fr)
            return [(s, VMutRef(place), None)]
        return self.ev(e, st, fr)

    def ev(self, e, st, fr):
        k = e["k"]
        m = getattr(self, "ev_" + k, None)
        if m is None:
            raise Unsupported("expr kind " + k + " at " + str(e.get("sp")))
        mac = e.get("mac")
        if mac and fr.mac is None and not mac[-1].startswith("desugar:"):
            prev = fr.mac
            fr.mac = mac[-1]
            try:
                return m(e, st, fr)
            finally:
                fr.mac = prev
        return m(e, st, fr)

    def ev_lit(self, e, st, fr):
        v = e["v"]
        ty = self.facts.ty(e["ty"])
        if ty["k"] in ("uint", "int"):
            return [(st, VNat(int(v)), None)]
        if ty["k"] == "bool":
            return [(st, TRUE if v == "true" else FALSE, None)]
        return [(st, VTop("lit"), None)]

    def ev_path(self, e, st, fr):
        r = e["res"]
        if r["k"] == "local":
            key = (fr.id, r["id"])
            if key not in st.env:
                # captured variable of an enclosing frame (closures share the frame) — or unbound
                raise Unsupported(f"unbound local {r['name']} at {e.get('sp')}")
            v = st.env[key]
            adj = e.get("adj") or []
            if isinstance(v, VMutRef) and "deref" in adj and "borrow_mut" not in adj and not self.is_handle_type(e["ty"]):
                v = self.read_place(st, v.place)
            return [(st, v, None)]
        if r["k"] == "def":
            dk = r["dk"]
            if dk.startswith("Ctor"):
                name = r.get("name")
                tyd = self.facts.ty(e["ty"])
                if tyd["k"] == "adt":
                    if tyd["path"] == r.get("ctor_of"):
                        return [(st, VRec(tyd["path"], {}), None)]
                    enum = tyd["path"].split("::")[-1]
                    return [(st, VEnum(enum, name, ()), None)]
                # constructor used as a function value
                return [(st, VFn("ctor", r.get("ctor_of"), {"name": name, "ty": e["ty"]}), None)]
            if dk in ("Fn", "AssocFn"):
                return [(st, VFn("fn", r["path"], r.get("callee")), None)]
            if dk in ("Const", "AssocConst"):
                return [(st, VTop("const " + r["path"]), None)]
            if dk == "Struct":
                return [(st, VRec(r["path"], {}), None)]
            if dk == "ConstParam":
                return [(st, VTop("constparam"), None)]
        if r["k"] == "selfctor":
            return [(st, VFn("ctor", r["path"], {"name": r["path"].split("::")[-1], "ty": e["ty"]}), None)]
        raise Unsupported("path res " + str(r))

    def is_handle_type(self, tyid):
        """Rc<..> (possibly behind shared references): the abstract value is a handle to a heap cell."""
        t = self.facts.ty(tyid)
        while t is not None and t["k"] == "ref" and not t.get("mut"):
            t = self.facts.ty(t["inner"])
        return t is not None and t["k"] == "adt" and t["path"].endswith("rc::Rc")

    def contains_handle(self, tyid, depth=0):
        """Does a value of this type (transitively) hold an Rc handle to shared mutable state?"""
        cache = self.__dict__.setdefault("_ch_cache", {})
        if tyid in cache:
            return cache[tyid]
        cache[tyid] = False
        t = self.facts.ty(tyid)
        r = False
        if t is None or depth > 6:
            r = False
        elif t["k"] in ("ref", "ptr", "slice", "array"):
            r = self.contains_handle(t["inner"], depth + 1)
        elif t["k"] == "tuple":
            r = any(self.contains_handle(x, depth + 1) for x in t["items"])
        elif t["k"] == "adt":
            if t["path"].endswith("rc::Rc"):
                r = True
            elif t["path"] in self.facts.structs:
                r = any(self.contains_handle(f["ty"], depth + 1) for f in self.facts.structs[t["path"]]["fields"])
            elif t["path"].endswith("vec::Vec") or t["path"].endswith("option::Option"):
                r = bool(t["args"]) and self.contains_handle(t["args"][0], depth + 1)
        cache[tyid] = r
        return r

    def ev_ctor(self, e, st, fr):
        tyd = self.facts.ty(e["ty"])

        def k(s, vals):
            return [(s, self.make_ctor(e["path"], e["name"], tyd, vals), None)]
        return self.ev_seq(e["args"], st, fr, k)

    def make_ctor(self, path, name, tyd, vals):
        if tyd["k"] == "adt" and tyd["path"] == path:
            if name in ("NodeId", "EdgeId", "VecArray"):
                return vals[0]    # transparent newtypes
            return VRec(path, {str(i): v for i, v in enumerate(vals)})
        enum = tyd["path"].split("::")[-1] if tyd["k"] == "adt" else "?"
        return VEnum(enum, name, vals)

    def ev_struct(self, e, st, fr):
        names = [f["name"] for f in e["fields"]]
        exprs = [f["e"] for f in e["fields"]]
        tyd = self.facts.ty(e["ty"])

        def k(s, vals):
            d = dict(zip(names, vals))
            if e.get("base"):
                outs = self.ev(e["base"], s, fr)
                s, b = self.single(outs, e)
                if isinstance(b, VRec):
                    for fk, fv in b.f.items():
                        d.setdefault(fk, fv)
            r = e["res"]
            if r["k"] == "def" and r["dk"] == "Variant":
                enum = tyd["path"].split("::")[-1]
                return [(s, VEnum(enum, r["path"].split("::")[-1], (d,)), None)]
            if tyd["k"] == "adt" and tyd["path"].endswith("ops::Range"):
                return [(s, VRange(d.get("start"), d.get("end")), None)]
            v = VRec(tyd["path"], d)
            self.on_struct_literal(e, v, s, fr)
            return [(s, v, None)]
        return self.ev_seq(exprs, st, fr, k)

    def on_struct_literal(self, e, v, st, fr):
        pass

    def ev_tuple(self, e, st, fr):
        if not e["args"]:
            return [(st, UNIT, None)]
        return self.ev_seq(e["args"], st, fr, lambda s, vals: [(s, VTup(vals), None)])

    def ev_array(self, e, st, fr):
        def k(s, vals):
            return [(s, stdlib.list_from_values(self, s, vals), None)]
        return self.ev_seq(e["args"], st, fr, k)

    def ev_field(self, e, st, fr):
        out = []
        for (s, v, c) in self.ev(e["e"], st, fr):
            if c is not None:
                out.append((s, v, c))
                continue
            while isinstance(v, VMutRef):
                v = self.read_place(s, v.place)
            r = self.project(s, v, e["name"])
            out.append((s, r, None))
        return out

    def ev_ref(self, e, st, fr):
        if e.get("mut"):
            s, place = self.eval_place(e["e"], st, fr)
            return [(s, VMutRef(place), None)]
        return self.ev(e["e"], st, fr)

    def ev_cast(self, e, st, fr):
        return self.ev(e["e"], st, fr)

    def ev_unary(self, e, st, fr):
        op = e["op"]
        out = []
        for (s, v, c) in self.ev(e["args"][0], st, fr):
            if c is not None:
                out.append((s, v, c))
                continue
            if op == "*":
                while isinstance(v, VMutRef):
                    v = self.read_place(s, v.place)
                out.append((s, v, None))
            elif op == "!":
                if isinstance(v, VBool):
                    out.append((s, VBool(f_not(v.f)), None))
                else:
                    out.append((s, VBool(("unk", ("not", id(e)))), None))
            elif op == "-":
                out.append((s, VTop("neg"), None))
            else:
                raise Unsupported("unary " + op)
        return out

    def ev_binary(self, e, st, fr):
        op = e["op"]
        if op in ("&&", "||"):
            out = []
            for (s, a, c) in self.ev(e["args"][0], st, fr):
                if c is not None:
                    out.append((s, a, c))
                    continue
                fa = a.f if isinstance(a, VBool) else ("unk", ("lhs", e["sp"]))
                yes, no = self.branch(s, fa)
                # short-circuit semantics
                cont, short = (yes, no) if op == "&&" else (no, yes)
                for s1 in short:
                    out.append((s1, FALSE if op == "&&" else TRUE, None))
                for s1 in cont:
                    for (s2, b, c2) in self.ev(e["args"][1], s1, fr):
                        if c2 is not None:
                            out.append((s2, b, c2))
                        else:
                            out.append((s2, b if isinstance(b, VBool) else VBool(("unk", ("rhs", e["sp"]))), None))
            return out
        callee = e.get("callee")
        if callee is not None:
            return self.do_call(e, callee, e["args"], st, fr)

        def k(s, vals):
            return stdlib.primitive_binop(self, s, fr, e, op, vals[0], vals[1])
        return self.ev_seq(e["args"], st, fr, k)

    def ev_assign(self, e, st, fr):
        lhs, rhs = e["args"]
        out = []
        for (s, v, c) in self.ev(rhs, st, fr):
            if c is not None:
                out.append((s, v, c))
                continue
            s, place = self.eval_place(lhs, s, fr)
            self.write_place(s, place, v)
            out.append((s, UNIT, None))
        return out

    def ev_assign_op(self, e, st, fr):
        lhs, rhs = e["args"]
        out = []
        for (s, v, c) in self.ev(rhs, st, fr):
            if c is not None:
                out.append((s, v, c))
                continue
            s, place = self.eval_place(lhs, s, fr)
            cur = self.read_place(s, place)
            op = e["op"].rstrip("=")
            res = stdlib.primitive_binop(self, s, fr, e, op, cur, v)
            for (s2, r, c2) in res:
                self.write_place(s2, place, r)
                out.append((s2, UNIT, None))
        return out

    def ev_index(self, e, st, fr):
        def k(s, vals):
            base, ix = vals
            while isinstance(base, VMutRef):
                base = self.read_place(s, base.place)
            return stdlib.index_expr(self, s, fr, e, base, ix)
        return self.ev_seq(e["args"], st, fr, k)

    def ev_block(self, e, st, fr):
        return self.run_block(e["stmts"], e.get("tail"), st, fr)

    def run_block(self, stmts, tail, st, fr):
        results = []

        def go(i, s):
            if i == len(stmts):
                if tail is not None:
                    results.extend(self.ev(tail, s, fr))
                else:
                    results.append((s, UNIT, None))
                return
            stmt = stmts[i]
            sk = stmt["k"]
            if sk == "item":
                go(i + 1, s)
                return
            if sk == "let":
                if stmt.get("init") is None:
                    go(i + 1, s)
                    return
                for (s2, v, c) in self.ev_arg(stmt["init"], s, fr):
                    if c is not None:
                        results.append((s2, v, c))
                        continue
                    matched, unmatched = self.match_pat(stmt["pat"], v, s2, fr)
                    for s3 in matched:
                        go(i + 1, s3)
                    if unmatched:
                        els = stmt.get("els")
                        if els is None:
                            raise Unsupported("refutable let without else")
                        for s3 in unmatched:
                            results.extend(self.run_block(els["stmts"], els.get("tail"), s3, fr))
                return
            # expr / semi
            outs_i = self.ev(stmt["e"], s, fr)
            if self.gsc_enabled and stmt["e"].get("k") == "if" and stmt["e"].get("else") is None and fr.fn is not None \
                    and fr.fn.get("body") is not None and fr.fn["body"].get("stmts") is stmts and not getattr(fr, "in_shadow", False):
                # guards (an early None / Err) are rejections, not shortcuts: only success-like early returns are compared
                rets = [(s2, v) for (s2, v, c) in outs_i if c == "ret"
                        and not (isinstance(v, VEnum) and v.variant in ("None", "Err"))]
                if rets and len(rets) <= 2:
                    for (s2, v) in rets:
                        fr.in_shadow = True
                        try:
                            general = self._quiet(lambda: self.run_block(stmts[i + 1:], tail, s2.copy(), fr))
                        finally:
                            fr.in_shadow = False
                        if general is not None:
                            self.gsc_compare(fr, stmt["e"], "early return", (s2, v), general)
            for (s2, v, c) in outs_i:
                if c is not None:
                    results.append((s2, v, c))
                else:
                    go(i + 1, s2)
        go(0, st)
        return results

    def ev_let(self, e, st, fr):
        # `if let PAT = init` condition: evaluates to a decided boolean per path
        out = []
        for (s, v, c) in self.ev(e["init"], st, fr):
            if c is not None:
                out.append((s, v, c))
                continue
            matched, unmatched = self.match_pat(e["pat"], v, s, fr)
            for s1 in matched:
                out.append((s1, TRUE, None))
            for s1 in unmatched:
                out.append((s1, FALSE, None))
        return out

    def ev_if(self, e, st, fr):
        out = []
        for (s, cv, c) in self.ev(e["cond"], st, fr):
            if c is not None:
                out.append((s, cv, c))
                continue
            f = cv.f if isinstance(cv, VBool) else ("unk", ("if", e["sp"]))
            yes, no = self.branch(s, f)
            for s1 in yes:
                then_outs = self.ev(e["then"], s1, fr)
                out.extend(then_outs)
                if self.gsc_enabled and e.get("else") is not None and self._trivial_branch(e["then"]) \
                        and not getattr(fr, "in_shadow", False) and len(then_outs) == 1 and then_outs[0][2] is None \
                        and not (isinstance(then_outs[0][1], VEnum) and then_outs[0][1].variant in ("None", "Err")):
                    fr.in_shadow = True
                    try:
                        general = self._quiet(lambda: self.ev(e["else"], s1.copy(), fr))
                    finally:
                        fr.in_shadow = False
                    if general is not None:
                        self.gsc_compare(fr, e, "if/else", (then_outs[0][0], then_outs[0][1]), general)
            for s1 in no:
                if e.get("else") is not None:
                    out.extend(self.ev(e["else"], s1, fr))
                else:
                    out.append((s1, UNIT, None))
        return out

    def _trivial_branch(self, b):
        """A branch that computes nothing: an empty constructor, a constant, a path (possibly cloned)."""
        while b.get("k") == "block" and not b.get("stmts") and b.get("tail") is not None:
            b = b["tail"]
        k = b.get("k")
        if k in ("lit", "path"):
            return True
        if k == "call" and not b.get("args") and b.get("callee") is not None:
            return b["callee"]["name"] in ("empty", "new", "default")
        if k == "call" and b.get("callee") is not None and b["callee"]["name"] == "clone" and len(b.get("args") or []) == 1:
            return self._trivial_branch(b["args"][0])
        return False

    def ev_match(self, e, st, fr):
        src = e["src"]
        if src.startswith("ForLoopDesugar"):
            import loops
            return loops.for_loop(self, e, st, fr)
        out = []
        for (s, v, c) in self.ev_arg(e["scrut"], st, fr):
            if c is not None:
                out.append((s, v, c))
                continue
            remaining = [s]
            for arm in e["arms"]:
                nxt = []
                for s1 in remaining:
                    matched, unmatched = self.match_pat(arm["pat"], v, s1, fr)
                    for s2 in matched:
                        if arm.get("guard") is not None:
                            for (s3, g, c3) in self.ev(arm["guard"], s2, fr):
                                f = g.f if isinstance(g, VBool) else ("unk", ("guard", e["sp"]))
                                y, n = self.branch(s3, f)
                                for s4 in y:
                                    out.extend(self.ev(arm["body"], s4, fr))
                                nxt.extend(n)
                        else:
                            out.extend(self.ev(arm["body"], s2, fr))
                    nxt.extend(unmatched)
                remaining = nxt
                if not remaining:
                    break
            # rustc guarantees exhaustiveness; leftover states are infeasible for typed values
        return out

    def ev_ret(self, e, st, fr):
        if e.get("e") is None:
            return [(st, UNIT, "ret")]
        out = []
        for (s, v, c) in self.ev(e["e"], st, fr):
            out.append((s, v, c if c is not None else "ret"))
        return out

    def ev_break(self, e, st, fr):
        if e.get("label") or e.get("e"):
            raise Unsupported("labelled break / break with a value")
        return [(st, UNIT, "break")]

    def ev_continue(self, e, st, fr):
        if e.get("label"):
            raise Unsupported("labelled continue")
        return [(st, UNIT, "continue")]

    def ev_loop(self, e, st, fr):
        import loops
        return loops.while_loop(self, e, st, fr)

    def ev_closure(self, e, st, fr):
        return [(st, VClosure(e, fr), None)]

    def ev_repeat(self, e, st, fr):
        return [(st, VTop("repeat-expr"), None)]

    def ev_call_value(self, e, st, fr):
        def k(s, vals):
            f = vals[0]
            return self.apply_value(f, vals[1:], s, fr, e)
        return self.ev_seq([e["f"]] + e["args"], st, fr, k)

    def ev_call(self, e, st, fr):
        callee = e.get("callee")
        if callee is None:
            raise Unsupported("call without callee at " + str(e.get("sp")))
        return self.do_call(e, callee, e["args"], st, fr)

    # ------------------------------------------------------------------ calls
    def do_call(self, e, callee, arg_exprs, st, fr):
        if self.facts.ty(e["ty"])["k"] == "never" and not callee.get("local"):
            self.panic_path(st, fr, e, "AST", self.cur_macro(fr) or callee["def"])
            return []

        def k(s, vals):
            return self.dispatch(e, callee, vals, s, fr)
        return self.ev_seq(arg_exprs, st, fr, k)

    def dispatch(self, e, callee, vals, st, fr):
        self.stats["paths"] += 1
        d = callee["def"]
        tr = callee.get("trait")
        name = callee["name"]
        # 1. array contract primitives (axioms), including the trait's default methods
        if tr in prims.ARRAY_TRAITS:
            h = prims.TABLE.get(name)
            if h is None:
                self.unmodelled_call(d, fr, e)
                return [(st, VTop("unmodelled " + d), None)]
            self.stats["prim_calls"] += 1
            self.choice_pair(st, fr, e, name, vals)
            return h(self, st, fr, e, callee, vals)
        # 2. diverging functions: panic paths
        tyd = self.facts.ty(e["ty"])
        if tyd["k"] == "never":
            kind = "AST" if any(x in d for x in ("assert_failed", "panic")) else "UNW"
            mac = self.enclosing_macro(e)
            self.panic_path(st, fr, e, "AST", mac or d)
            return []
        # 3a. unresolved trait method on a crate record: dispatch on the abstract value
        if not callee.get("res") and callee.get("trait") and vals and isinstance(vals[0], VRec) \
                and callee["def"] not in ("std::clone::Clone::clone", "std::cmp::PartialEq::eq", "std::cmp::PartialEq::ne"):
            fn = self.dynamic_dispatch(callee, vals)
            if fn is not None:
                return self.call_fn(fn, vals, st, fr, e)
        # 3. std / num_traits / core functions with a transfer function
        h = stdlib.lookup(self, callee, vals)
        if h is not None:
            self.stats["std_calls"] += 1
            return h(self, st, fr, e, callee, vals)
        # 4. crate functions with bodies: inline
        target = callee.get("res") if callee.get("res_local") else (d if callee.get("local") else None)
        fn = self.facts.fns.get(target) if target else None
        if fn is None and callee.get("local"):
            fn = self.dynamic_dispatch(callee, vals)
        if fn is not None:
            return self.call_fn(fn, vals, st, fr, e)
        if fn is None and d in GENERIC_INSTANCES:
            fn = self.facts.fns.get(GENERIC_INSTANCES[d])
            if fn is not None:
                return self.call_fn(fn, vals, st, fr, e)
        # 5. user-supplied trait methods (documented contracts)
        h = stdlib.user_contract(self, callee, vals)
        if h is not None:
            self.stats["user_calls"] += 1
            return h(self, st, fr, e, callee, vals)
        # 6. pure core/std functions without a transfer function (no &mut argument, boolean or unsigned result):
        #    an uninterpreted function of the argument values — nothing is assumed about the result except that
        #    equal arguments give equal results; paths through both outcomes are explored
        if d.startswith(("core::", "std::", "alloc::")) and not any(isinstance(x, VMutRef) for x in vals):
            import contracts_lax
            key = ("ufn", d) + tuple(contracts_lax.key_of(stdlib.deref(self, st, x)) for x in vals)
            if tyd["k"] == "bool":
                self.stats["ufn_calls"] = self.stats.get("ufn_calls", 0) + 1
                self.uninterpreted.setdefault(d, []).append(e.get("sp", "?"))
                return [(st, VBool(("unk", key)), None)]
            if tyd["k"] == "uint":
                self.stats["ufn_calls"] = self.stats.get("ufn_calls", 0) + 1
                self.uninterpreted.setdefault(d, []).append(e.get("sp", "?"))
                return [(st, VNat(Poly.atom(key)), None)]
        self.unmodelled_call(d, fr, e)
        # nothing is known about what the callee does to the places it can write: forget them
        for x in vals:
            if isinstance(x, VMutRef):
                try:
                    self.write_place(st, x.place, VTop("written by unmodelled " + d))
                except Exception:
                    pass
        return [(st, VTop("unmodelled " + d), None)]

    # ------------------------------------------------------------------ GSC: fast paths agree with the general path
    def _quiet(self, thunk):
        """Run a shadow evaluation: no obligation, assumption, lemma or unmodelled-call record survives; None on failure."""
        n_ob = len(self.obligations)
        saved = (dict(self.unmodelled), dict(self.lemma_uses), dict(self.assumptions), dict(self.entry_unmodelled),
                 dict(self.stats), list(self.loop_info))
        try:
            res = thunk()
            failed = any(o.status == "failed" for o in self.obligations[n_ob:])
            return None if failed else res
        except Exception:
            return None
        finally:
            del self.obligations[n_ob:]
            self.unmodelled, self.lemma_uses, self.assumptions, self.entry_unmodelled = saved[0], saved[1], saved[2], saved[3]
            self.stats = saved[4]
            self.loop_info[:] = saved[5]

    def _same(self, st, a, b, depth=0):
        """Provably equal abstract values (None: not comparable / summarised values involved)."""
        import spec_checks
        while isinstance(a, VMutRef):
            a = self.read_place(st, a.place)
        while isinstance(b, VMutRef):
            b = self.read_place(st, b.place)
        if isinstance(a, VSeq) and isinstance(b, VSeq):
            if spec_checks.imprecise(a.t) or spec_checks.imprecise(b.t):
                return None
            if terms_equal(st, a.t, b.t):
                return True
            if st.eq(t_len(a.t), 0) and st.eq(t_len(b.t), 0):
                return True
            return False
        if isinstance(a, VNat) and isinstance(b, VNat):
            if spec_checks.imprecise(a.p) or spec_checks.imprecise(b.p):
                return None
            return st.eq(a.p, b.p)
        if isinstance(a, VRec) and isinstance(b, VRec) and a.ty == b.ty and set(a.f) == set(b.f):
            rs = [self._same(st, a.f[k], b.f[k], depth + 1) for k in a.f]
        elif isinstance(a, VTup) and isinstance(b, VTup) and len(a.items) == len(b.items):
            rs = [self._same(st, x, y, depth + 1) for x, y in zip(a.items, b.items)]
        elif isinstance(a, VEnum) and isinstance(b, VEnum):
            if a.variant != b.variant or len(a.payload) != len(b.payload):
                return False
            rs = [self._same(st, x, y, depth + 1) for x, y in zip(a.payload, b.payload)]
        elif isinstance(a, VUnit) and isinstance(b, VUnit):
            return True
        elif isinstance(a, VBool) and isinstance(b, VBool):
            if a.f == b.f:
                return True
            both = not self.assume(st.copy(), f_and(a.f, f_not(b.f))) and not self.assume(st.copy(), f_and(b.f, f_not(a.f)))
            return True if both else None
        elif isinstance(a, VUser) and isinstance(b, VUser):
            return True if a.key == b.key else None
        else:
            return None
        if any(r is False for r in rs):
            return False
        if any(r is None for r in rs):
            return None
        return True

    def gsc_compare(self, fr, node, what, fast, general):
        """fast: (state, value) of the shortcut; general: outcomes [(state, value, ctl)] of the general computation
        under the shortcut's condition.  Every feasible general outcome must produce the shortcut's value and leave the
        places reachable through the frame's mutable references in the same state."""
        s_f, v_f = fast
        verdicts = []
        for (s_g, v_g, ctl) in general:
            if ctl not in (None, "ret"):
                return
            if s_g.infeasible() or (self.saturate_empty(s_g) and s_g.infeasible()):
                continue
            r = self._same(s_g, v_f, v_g)
            if r is True:
                for key, val in list(s_f.env.items()):
                    if key[0] == fr.id and isinstance(val, VMutRef):
                        try:
                            r2 = self._same(s_g, self.read_place(s_f, val.place), self.read_place(s_g, val.place))
                        except Exception:
                            r2 = None
                        if r2 is not True:
                            r = r2
                            break
            verdicts.append((r, s_g, v_g))
        if not verdicts:
            return
        if any(r is None for (r, _, _) in verdicts):
            return      # summarised values on one side: agreement can be neither shown nor refuted (76 such sites on
                        # the pinned tree): no verdict
        bad = [x for x in verdicts if x[0] is False]
        ok = not bad
        goal = "shortcut value " + repr(v_f)[:140] + (" ≡ general path" if ok else "  vs general path " + repr(bad[0][2])[:200])
        self.oblige("ENS", fr, node, "GSC " + what + ": a shortcut returns what the general computation would return under the same condition",
                    goal, ok, "shadow-path" if ok else "", detail="" if ok else self.describe(bad[0][1]))

    ORDER_INSENSITIVE = {"max", "sum", "len", "is_empty", "fill", "empty", "arange"}

    def choice_pair(self, st, fr, e, name, vals):
        """CHOICE: the counts of `sparse_bincount` come in the (unspecified) order of its keys; a position-sensitive
        primitive may consume them only together with those keys."""
        if name in self.ORDER_INSENSITIVE:
            return
        counts, keys = set(), set()

        def walk_t(x):
            if isinstance(x, tuple):
                if len(x) == 2 and x[0] == "spcounts":
                    counts.add(x[1])
                if len(x) == 2 and x[0] == "spkeys":
                    keys.add(x[1])
                for y in x:
                    walk_t(y)
            elif isinstance(x, Poly):
                for a_ in x.atoms():
                    walk_t(a_)

        def walk_v(v, depth=0):
            if depth > 6:
                return
            while isinstance(v, VMutRef):
                try:
                    v = self.read_place(st, v.place)
                except Exception:
                    return
            if isinstance(v, VSeq):
                walk_t(v.t)
            elif isinstance(v, VRec):
                for x in v.f.values():
                    walk_v(x, depth + 1)
            elif isinstance(v, VTup):
                for x in v.items:
                    walk_v(x, depth + 1)
        for v in vals:
            walk_v(v)
        self.choice_fill(st, fr, e, name, vals)
        for X in counts & keys:
            self.oblige("PRE", fr, e, "CHOICE " + name, "sparse_bincount counts consumed together with their keys: "
                        + show_term(("spcounts", X))[:120], True, "paired")
        for X in counts - keys:
            self.oblige("PRE", fr, e, "CHOICE " + name,
                        "sparse_bincount counts are consumed position-wise together with their keys (key order is an "
                        "open choice of the array backend): " + show_term(("spcounts", X))[:160], False, "",
                        detail=self.describe(st))

    def choice_fill(self, st, fr, e, name, vals):
        """CHOICE: `x.scatter(q, n)` leaves the positions outside the image of q to the backend (the Vec backend fills
        them with x[0]); such a position may not be read.  A scattered array is read safely along its own index array q
        (or along a re-indexing of q), or when q is a component numbering (onto 0..n by contract)."""
        if name in ("scatter", "len", "is_empty", "fill", "empty", "arange", "scatter_assign", "scatter_assign_constant",
                    "scatter_sub_assign", "set_range"):
            return
        if not vals:
            return
        recv = vals[0]
        while isinstance(recv, VMutRef):
            try:
                recv = self.read_place(st, recv.place)
            except Exception:
                return
        if isinstance(recv, VRec) and set(recv.f) == {"0"}:
            recv = recv.f["0"]
        if not isinstance(recv, VSeq):
            return
        scat = []

        def walk_t(x, depth=0):
            if isinstance(x, tuple) and depth < 6:
                if len(x) == 4 and x[0] == "scatter":
                    scat.append(x)
                    return
                if x and x[0] in ("sa", "sac", "ssa", "slice", "concat", "upd"):
                    for y in x[1:2] if x[0] != "concat" else x[1:]:
                        walk_t(y, depth + 1)
        walk_t(normalise(st, recv.t))
        for sc in scat:
            q = sc[2]
            ok = q[0] == "cc" or (q[0] == "argsort") or q[0] == "arange"
            if not ok and name == "gather" and len(vals) > 1:
                idx = vals[1]
                while isinstance(idx, VMutRef):
                    idx = self.read_place(st, idx.place)
                if isinstance(idx, VSeq):
                    it = normalise(st, idx.t)
                    ok = terms_equal(st, it, q) or (it[0] == "gather" and terms_equal(st, it[1], q))
            self.oblige("PRE", fr, e, "CHOICE " + name,
                        "a scattered array is read only where it was written (other positions hold the backend's filler): "
                        + show_term(sc)[:140], ok, "written-positions" if ok else "", detail="" if ok else self.describe(st))

    def enclosing_macro(self, e):
        return self.macro_of(e)

    def macro_of(self, e):
        m = e.get("mac")
        if m:
            return m[-1] + "!"
        return None

    def cur_macro(self, fr):
        return (fr.mac + "!") if fr is not None and fr.mac else None

    def dynamic_dispatch(self, callee, vals):
        """Trait method on a generic parameter: dispatch on the abstract value's type."""
        name = callee["name"]
        tr = callee.get("trait", "")
        v0 = vals[0] if vals else None
        while isinstance(v0, VMutRef):
            return None
        if not isinstance(v0, VRec):
            return None
        trs = tr.split("::")[-1]
        cands = []
        for p, f in self.facts.fns.items():
            if f["name"] != name or f.get("impl_trait") != tr:
                continue
            s = f.get("impl_self", "").lstrip("&").split("<")[0]
            if s != v0.ty:
                continue
            if len(vals) > 1 and isinstance(vals[1], VRec) and tr.startswith("std::ops::"):
                r = vals[1].ty
                if f"{trs}<&{r}" not in p and f"{trs}<{r}" not in p and not (r == v0.ty and f"{trs}<" not in p):
                    continue
            cands.append(f)
        if len(cands) > 1 and callee.get("self_ty") is not None:
            want_ref = self.facts.tystr(callee["self_ty"]).startswith("&")
            cands = [f for f in cands if f.get("impl_self", "").startswith("&") == want_ref]
        if len(cands) == 1:
            return cands[0]
        return None

    def call_fn(self, fn, vals, st, fr, e):
        if fr.depth >= self.max_depth:
            raise Unsupported("call depth exceeded at " + fn["path"])
        import inv
        ov = inv.call_override(self, fn, vals, st, fr, e)
        if ov is not None:
            return ov
        self.stats["calls_inlined"] += 1
        nf = Frame(fn, fr, e)
        n_facts0 = len(st.lin.facts)
        keys0 = list(st.env.keys())
        s = st
        states = [s]
        for p, v in zip(fn["params"], vals):
            nxt = []
            for s1 in states:
                m, u = self.match_pat(p["pat"], v, s1, nf)
                nxt.extend(m)
            states = nxt
        out = []
        for s1 in states:
            for (s2, v, c) in self.ev(fn["body"], s1, nf):
                if c in (None, "ret"):
                    out.append((s2, v, None))
                else:
                    raise Unsupported("control flow escaping function: " + str(c))
        import internal_specs
        internal_specs.check(self, fn, vals, out, nf, e)
        if fr.fn is not None and len(out) > 1 and self.merge_shortcuts:
            out = self.join_shortcuts(out, n_facts0, keys0)
        return out

    # ------------------------------------------------------------------ joining shortcut paths at call returns
    def join_shortcuts(self, outs, n0, keys0):
        """A callee that answers a special case early (an empty operand, a zero offset) and the general case by its
        general code returns twice.  When the early answer EQUALS the general answer under the early path's own
        condition (term equality on every array, linear equality on every number, same post-state of the caller's
        places), the two outcomes are joined: the state keeps the facts both paths share, the value is the general
        one.  Sound (the joined state over-approximates both paths and the value is valid on both); it keeps the
        number of paths of the callers from doubling at every such call."""
        outs = list(outs)
        changed = True
        while changed and len(outs) > 1:
            changed = False
            for i in range(len(outs)):
                for j in range(len(outs)):
                    if i == j:
                        continue
                    m = self._join_pair(outs[i], outs[j], n0, keys0)
                    if m is not None:
                        outs = [o for k, o in enumerate(outs) if k not in (i, j)] + [m]
                        self.stats["joined_shortcuts"] = self.stats.get("joined_shortcuts", 0) + 1
                        changed = True
                        break
                if changed:
                    break
        return outs

    def _join_pair(self, a, b, n0, keys0):
        (si, vi, ci), (sj, vj, cj) = a, b
        if ci is not None or cj is not None:
            return None
        # failures and verdicts are never joined: the facts of their paths are what REJ / boolean specs decide on
        for v_ in (vi, vj):
            if isinstance(v_, VBool) or (isinstance(v_, VEnum) and v_.variant in ("None", "Err")):
                return None
        if si.teq != sj.teq or si.tne != sj.tne or si.unk != sj.unk or si.props != sj.props:
            return None
        fi, fj = si.lin.facts[n0:], sj.lin.facts[n0:]
        if si.lin.facts[:n0] != sj.lin.facts[:n0]:
            return None
        common = set(fi) & set(fj)
        di = [f for f in fi if f not in common]
        dj = [f for f in fj if f not in common]
        if len(di) != 1 or not dj or not any(_complementary(di[0], g) for g in dj):
            return None
        if not _same_under(si, vi, vj):
            return None
        for k in keys0:
            x, y = si.env.get(k), sj.env.get(k)
            if x is y:
                continue
            if x is None or y is None or not _same_under(si, x, y):
                return None
        s = sj.copy()
        from poly import Lin
        s.lin = Lin(sj.lin.facts[:n0] + [f for f in fj if f in common])
        s.pos, s.neg = set(), {}
        s.bnd = {t: tuple(b for b in bs if b in si.bnd.get(t, ())) for t, bs in sj.bnd.items()}
        s.bnd = {t: bs for t, bs in s.bnd.items() if bs}
        n = 0
        while n < len(si.path) and n < len(sj.path) and si.path[n] == sj.path[n]:
            n += 1
        s.path = sj.path[:n]
        return (s, vj, None)

    def apply_value(self, f, args, st, fr, e):
        """Call a closure / function value / user callback with argument values."""
        if isinstance(f, VClosure):
            node = f.node
            s = st
            states = [s]
            for p, v in zip(node["params"], args):
                nxt = []
                for s1 in states:
                    m, u = self.match_pat(p, v, s1, f.frame)
                    nxt.extend(m)
                states = nxt
            out = []
            for s1 in states:
                for (s2, v, c) in self.ev(node["body"], s1, f.frame):
                    if c in (None, "ret"):
                        out.append((s2, v, None))
                    else:
                        out.append((s2, v, c))
            return out
        if isinstance(f, VFn):
            if f.kind == "ctor":
                tyd = self.facts.ty(f.callee["ty"]) if f.callee else None
                name = f.callee["name"]
                if name in ("NodeId", "EdgeId", "VecArray"):
                    return [(st, args[0], None)]
                if name in ("Some",):
                    return [(st, some(args[0]), None)]
                if name == "Ok":
                    return [(st, ok(args[0]), None)]
                if name == "Err":
                    return [(st, err(args[0]), None)]
                if f.path in self.facts.structs:
                    return [(st, VRec(f.path, {str(i): v for i, v in enumerate(args)}), None)]
                return [(st, VEnum(f.path.split("::")[-2] if "::" in f.path else "?", name, args), None)]
            if f.callee is not None:
                return self.dispatch(e, f.callee, list(args), st, fr)
        if isinstance(f, VUser):
            h = stdlib.user_closure(self, f, args)
            if h is not None:
                return h(self, st, fr, e, None, [f] + list(args))
        if isinstance(f, VMutRef):
            return self.apply_value(self.read_place(st, f.place), args, st, fr, e)
        raise Unsupported("call of value " + type(f).__name__ + " at " + str(e.get("sp")))
