"""Vec / slice / iterator transfer functions (std), list terms for sequences of records,
crate-iterator templates, loop summaries for push/extend loops and in-place element maps.

Sequences are symbolic terms (values.py).  Extra term constructors used here:
  ('el', L, fld)        the field `fld` (a sequence) of an arbitrary element of the record list L
  ('lmap', L, body)     the list obtained from L by replacing every element with `body` (a frozen
                        record value over the placeholders ('el', L, .) / ('elem', L))
  ('single', x)         one-element list (x frozen)
  ('flat', L, seq)      concatenation over the elements of L of the sequence `seq` (over placeholders)
  ('emap', T, poly)     element-wise scalar map of T (poly over the placeholder atom ('elem', T))
  ('zip', A, B), ('enum', A), ('filtermap', T, key), ('list', key)
"""
from poly import Poly, as_poly, show_poly
from values import *
import inv

LIST_ELEM = {}      # leaf term -> element kind ('hyperedge')
LABEL_LEAVES = set()


def deref(I, st, v):
    while isinstance(v, VMutRef):
        v = I.read_place(st, v.place)
    return v


# ---------------------------------------------------------------------------------------------
# freeze / thaw of element templates

def freeze(v):
    if isinstance(v, VRec):
        return ("rec", v.ty, tuple((k, freeze(x)) for k, x in sorted(v.f.items())))
    if isinstance(v, VSeq):
        return ("seq", v.t)
    if isinstance(v, VNat):
        return ("nat", v.p)
    if isinstance(v, VTup):
        return ("tup", tuple(freeze(x) for x in v.items))
    if isinstance(v, VUser):
        return ("user", v.key)
    if isinstance(v, VUnit):
        return ("unit",)
    if isinstance(v, VEnum):
        return ("enum", v.enum, v.variant, tuple(freeze(x) for x in v.payload))
    if isinstance(v, VBool):
        return ("bool", v.f)
    if isinstance(v, VMutRef):
        return ("mref", v.place)
    return ("top", repr(v)[:60])


def thaw(f):
    k = f[0]
    if k == "rec":
        return VRec(f[1], {n: thaw(x) for n, x in f[2]})
    if k == "seq":
        return VSeq(f[1])
    if k == "nat":
        return VNat(f[1])
    if k == "tup":
        return VTup([thaw(x) for x in f[1]])
    if k == "user":
        return VUser(f[1])
    if k == "unit":
        return UNIT
    if k == "enum":
        return VEnum(f[1], f[2], [thaw(x) for x in f[3]])
    if k == "bool":
        return VBool(f[1])
    if k == "mref":
        return VMutRef(f[1])
    return VTop("thaw " + str(f[1:]))


def explicit_elems(t):
    """Element values of an explicitly enumerated list (concat of single/fill(_,1)), else None."""
    if t[0] == "zip":
        a, b = explicit_elems(t[1]), explicit_elems(t[2])
        if a is None or b is None:
            return None
        return [VTup([x, y]) for x, y in zip(a, b)]
    parts = list(t[1:]) if t[0] == "concat" else [t]
    out = []
    for p in parts:
        if p[0] == "single":
            out.append(thaw(p[1]))
        elif p[0] == "fill" and as_poly(p[2]) == Poly.const(1):
            out.append(VNat(as_poly(p[1])))
        else:
            return None
    return out


def hyperedge_template(L):
    return VRec(inv.LEDGE, {"sources": VSeq(("el", L, "sources")), "targets": VSeq(("el", L, "targets"))})


def placeholder(st, t, kind="nat"):
    """The arbitrary element of a scalar / label sequence."""
    if kind == "label":
        return VUser(("elem", t))
    a = Poly.atom(("elem", t))
    for b in ubs(st, t):
        st.add_ge(b - a - 1)
    return VNat(a)


def _aligned_windows(st, A, a, B, b):
    """Two windows of one monotone array (a cumulative sum) walked in lock-step (zip): the window that starts later
    holds, position by position, the larger element."""
    if A[0] == "slice" and B[0] == "slice" and A[1] == B[1] and (A[1][0] == "cumsum" or st.has_prop("mono", A[1])):
        if st.ge(as_poly(B[2]), as_poly(A[2])):
            st.add_ge(b - a)
        elif st.ge(as_poly(A[2]), as_poly(B[2])):
            st.add_ge(a - b)


FLAG_LEAVES = set()


def is_flags(t):
    """Is t a vector of booleans (a constant vector of a boolean, a leaf registered as one, an update of one)?"""
    while t[0] == "upd" and t[3] == ():
        t = t[1]
    return t in FLAG_LEAVES or is_flag_fill(t) is not None


def label_of(t):
    """Is t a sequence of labels (user values) rather than naturals?"""
    if t in LABEL_LEAVES:
        return True
    if t[0] == "gather":
        return label_of(t[1])
    if t[0] == "concat":
        return any(label_of(p) for p in t[1:])
    if t[0] in ("scatter", "slice", "sa", "sel"):
        return label_of(t[1])
    if t[0] in ("Fmap", "LFobj", "umap"):
        return True
    if t[0] == "flat":
        return label_of(t[2])
    if t[0] == "fill":
        return any(isinstance(a, tuple) and a and a[0] == "lbl" for a in as_poly(t[1]).atoms())
    return False


# ---------------------------------------------------------------------------------------------
# Template lists for crate iterators (IndexedCoproduct iterators)

def templates(I):
    if not hasattr(I, "_templates"):
        I._templates = {}
    return I._templates


def crate_iterator_next(I, v):
    if not isinstance(v, VRec):
        return None
    for p, f in I.facts.fns.items():
        if f["name"] == "next" and f.get("impl_trait") == "std::iter::Iterator":
            s = f.get("impl_self", "").split("<")[0]
            if s == v.ty:
                return f
    return None


def as_list(I, st, fr, e, v):
    """Convert an iterable abstract value to a VSeq."""
    v = deref(I, st, v)
    if isinstance(v, VSeq):
        return v
    nxt = crate_iterator_next(I, v)
    if nxt is not None:
        return list_of_iterator(I, st, fr, e, v, nxt)
    if isinstance(v, VRec) and v.ty == inv.IC:
        for p, f in I.facts.fns.items():
            if f["name"] == "into_iter" and "IntoIterator for indexed_coproduct" in p:
                want = "FiniteFunction" if isinstance(v.f["values"], VRec) and v.f["values"].ty == inv.FF else "SemifiniteFunction"
                if want in p.split(" for ")[1]:
                    outs = I.call_fn(f, [v], st, fr, e)
                    s2, it = I.single(outs, e)
                    return as_list(I, s2, fr, e, it)
    if isinstance(v, VRange):
        return VSeq(mk_arange(v.lo.p if v.lo else 0, v.hi.p + (1 if v.incl else 0)))
    import mapmodel
    if mapmodel.is_map(v):
        return mapmodel.h_iter(I, st, fr, e, None, [v])[0][1]
    if isinstance(v, VTop):
        return VSeq(leaf(("top-iter", v.why)))
    if isinstance(v, VEnum) and v.variant in ("Some", "None"):
        return VSeq(EMPTY if v.variant == "None" else ("single", freeze(v.payload[0])))
    if isinstance(v, VUser):
        return VSeq(leaf(("user-iter", v.key)))
    raise NotImplementedError("as_list of " + repr(v)[:80])


def list_of_iterator(I, st, fr, e, it, nxt):
    """Abstract a crate iterator record by running `next` once from an arbitrary position."""
    key = ("iter", it.ty, repr(it))
    term = ("list", key)
    tp = templates(I)
    remaining = None
    if "index" in it.f and "pointers" in it.f:
        ptr = it.f["pointers"].t
        remaining = t_len(ptr) - 1 - it.f["index"].p
    if term not in tp:
        j = Poly.atom(("iterpos", key))
        s = st.copy()
        it2 = it
        if "index" in it.f:
            it2 = it.with_field("index", VNat(j))
            s.add_ge(j - it.f["index"].p)
        root = (fr.id, ("itertmp", id(e)))
        s.env[root] = it2
        outs = I.call_fn(nxt, [VMutRef((root, ()))], s, fr, e)
        elems = []
        for (s2, v, c) in outs:
            if isinstance(v, VEnum) and v.variant == "Some":
                elems.append((s2, v.payload[0]))
        if len(elems) == 0:
            return VSeq(EMPTY)
        if len(elems) != 1:
            raise NotImplementedError(f"iterator next: {len(elems)} Some-paths")
        s2, elem = elems[0]
        new_facts = s2.lin.facts[len(st.lin.facts):]
        tp[term] = {"elem": elem, "facts": list(new_facts), "bnd": {k: v for k, v in s2.bnd.items() if k not in st.bnd}}
    if remaining is not None:
        st.add_eq(t_len(term) - remaining)
    return VSeq(term)


def template_of(I, term):
    return templates(I).get(term)


# ---------------------------------------------------------------------------------------------
# elements

def seq_elem(I, st, v, ip=None, label=False):
    """An arbitrary (ip None) or indexed element of a sequence value."""
    t = v.t
    tpl = template_of(I, t)
    if tpl is not None:
        for (k, p) in tpl["facts"]:
            st.lin.add(k, p)
        for term, bs in tpl["bnd"].items():
            for b in bs:
                st.add_bound(term, b)
        return tpl["elem"]
    kind = LIST_ELEM.get(t) if t[0] == "v" else None
    if isinstance(kind, tuple) and kind[0] == "struct":
        nm = "elem(" + str(t[1]) + ")" if ip is None else "get(" + str(t[1]) + "," + show_poly(ip) + ")"
        return inv.symbolic(I, st, kind[1], nm, wf=True)
    if t[0] == "v" and LIST_ELEM.get(t) == "hyperedge":
        if ip is not None:
            return VRec(inv.LEDGE, {"sources": VSeq(("at", t, "sources", ip)), "targets": VSeq(("at", t, "targets", ip))})
        return hyperedge_template(t)
    if t[0] == "lmap":
        return thaw(t[2])
    if t[0] in ("filtermap", "mapwhile") and len(t[2]) == 1 and isinstance(t[2][0], tuple) and t[2][0] and t[2][0][0] == "tup":
        return thaw(t[2][0])        # the elements that were kept: the (tuple) payload of the Some answers
    if t[0] == "single":
        return thaw(t[1])
    if t[0] == "zip":
        x, y = seq_elem(I, st, VSeq(t[1])), seq_elem(I, st, VSeq(t[2]))
        if ip is None and isinstance(x, VNat) and isinstance(y, VNat):
            _aligned_windows(st, t[1], x.p, t[2], y.p)
        return VTup([x, y])
    if t[0] == "sel" and ip is None:
        return rename_selected(st, seq_elem(I, st, VSeq(t[1]), None), t[2])
    if t[0] == "lfilter":
        # an element that passed the filter: the arbitrary element of the underlying list, renamed to the
        # sub-sequences selected by the mask, and satisfying the filter condition
        term_facts(st, t)
        base = seq_elem(I, st, VSeq(t[1]), None)
        return rename_selected(st, base, t[2])
    if t[0] == "enum":
        ix = Poly.atom(("enumidx", t[1]))
        st.add_ge(t_len(t[1]) - ix - 1)
        return VTup([VNat(ix), seq_elem(I, st, VSeq(t[1]))])
    if t[0] == "concat" and ip is not None:
        off = Poly.const(0)
        for part in t[1:]:
            n = t_len(part)
            if st.ge(ip, off + n):
                off = off + n
                continue
            if st.ge(ip, off) and st.ge(off + n - 1, ip):
                return seq_elem(I, st, VSeq(part), ip - off, label)
            break
        return VTop("element of concatenation at unknown position")
    if t[0] == "upd" and ip is not None:
        base_elem = seq_elem(I, st, VSeq(t[1]), ip)
        i0 = as_poly(t[2])
        path = t[3]
        newv = thaw(t[4])
        if st.eq(ip, i0):
            return _set_path(base_elem, path, newv) if isinstance(base_elem, (VRec, VTup)) else base_elem
        if st.ne(ip, i0):
            return base_elem
        # possibly the updated element: the updated field is unknown (either version)
        if isinstance(base_elem, VRec) and len(path) == 1 and path[0] in base_elem.f:
            lf = leaf(("maybe-updated", t, ip))
            for b in ubs(st, newv.t if isinstance(newv, VSeq) else EMPTY):
                if isinstance(base_elem.f[path[0]], VSeq) and prove_bound(st, base_elem.f[path[0]].t, b):
                    st.add_bound(lf, b)
            return base_elem.with_field(path[0], VSeq(lf))
        return base_elem
    if ip is not None and is_flags(t):
        # element of a vector of flags: an unknown boolean that is a function of the vector and the position
        if t[0] == "upd" and t[3] == () and st.eq(as_poly(t[2]), as_poly(ip)):
            return thaw(t[4])
        return VBool(("unk", ("flag", t, as_poly(ip))))
    is_lbl = label or label_of(t)
    if ip is None:
        return placeholder(st, t, "label" if is_lbl else "nat")
    if is_lbl:
        return VUser(("get", t, ip))
    if t[0] == "fill":
        return VNat(as_poly(t[1]))          # every element of a constant array is the constant
    if t[0] == "arange":
        return VNat(as_poly(t[1]) + as_poly(ip))
    a = Poly.atom(("get", t, ip))
    for b in ubs(st, t):
        st.add_ge(b - a - 1)
    return VNat(a)


def seq_update(I, st, v, ip, rest, val):
    """v[ip].rest := val for a sequence of records."""
    v = deref(I, st, v)
    if isinstance(v, VSeq):
        return VSeq(("upd", v.t, ip if ip is not None else Poly.const(0), tuple(str(r) for r in rest), freeze(val)))
    return VTop("update")


def index_expr(I, st, fr, e, base, ix):
    base = deref(I, st, base)
    ix = deref(I, st, ix)
    import mapmodel
    if mapmodel.is_map(base) and isinstance(ix, VNat):
        return mapmodel.index(I, st, fr, e, base, ix)
    if isinstance(base, VSeq):
        if isinstance(ix, VNat):
            I.pre_ge(st, fr, e, "index", t_len(base.t), ix.p + 1, f"{show_poly(ix.p)} < len({show_term(base.t)})")
            tyd = I.facts.ty(e["ty"])
            if tyd["k"] == "bool":
                # element of a vector of flags: an unknown boolean that is a function of the vector and the position
                return [(st, VBool(("unk", ("flag", base.t, ix.p))), None)]
            # indexing by the arbitrary element of another sequence: arbitrary element of the gather
            at = ix.p.atoms()
            if len(ix.p.t) == 1 and len(at) == 1:
                a = next(iter(at))
                if isinstance(a, tuple) and a[0] == "elem" and ix.p == Poly.atom(a):
                    return [(st, elem_of_gather(I, st, base.t, a[1], e), None)]
            return [(st, seq_elem(I, st, base, ix.p, label_of(base.t) or tyd["k"] == "param"), None)]
        if isinstance(ix, (VRange, VRec)):
            import prims
            lo, hi = prims._range(I, st, base.t, ix)
            n = t_len(base.t)
            I.pre_ge(st, fr, e, "slice", hi, lo, f"{show_poly(lo)} <= {show_poly(hi)}")
            I.pre_ge(st, fr, e, "slice", n, hi, f"{show_poly(hi)} <= len({show_term(base.t)})")
            return [(st, VSeq(mk_slice(st, base.t, lo, hi)), None)]
    if isinstance(base, VTop):
        return [(st, VTop("index"), None)]
    raise NotImplementedError("index of " + repr(base)[:60] + " by " + repr(ix)[:40])


def elem_of_gather(I, st, base, idx, e=None):
    """Placeholder for base[idx[i]] (i arbitrary): the arbitrary element of gather(base, idx)."""
    g = mk_gather(st, base, idx)
    if g[0] != "gather":
        # re-indexing along all positions in order: the arbitrary element of the array itself
        g_is_plain = True
    else:
        g_is_plain = False
        g = ("gather", base, idx)
    tyd = I.facts.ty(e["ty"]) if e is not None else None
    if g_is_plain:
        is_lbl = label_of(g) or (tyd is not None and tyd["k"] == "param")
        return placeholder(st, g, "label" if is_lbl else "nat")
    if label_of(base) or (tyd is not None and tyd["k"] == "param"):
        return VUser(("elem", g))
    if tyd is not None and tyd["k"] == "adt" and tyd["path"] == "std::option::Option":
        return VUser(("elem", g))
    a = Poly.atom(("elem", g))
    for b in ubs(st, base):
        st.add_ge(b - a - 1)
    return VNat(a)


def mk_slice(st, x, lo, hi):
    lo, hi = as_poly(lo), as_poly(hi)
    if not lo.t and st.eq(hi, t_len(x)):
        return x
    if x[0] == "arange":
        return ("arange", x[1] + lo, x[1] + hi)
    if x[0] == "concat":
        off = Poly.const(0)
        parts = list(x[1:])
        i = 0
        while i < len(parts) and not st.eq(off, lo):
            off = off + t_len(parts[i])
            i += 1
        if st.eq(off, lo):
            acc = []
            j = i
            while j < len(parts) and not st.eq(off, hi):
                off = off + t_len(parts[j])
                acc.append(parts[j])
                j += 1
            if st.eq(off, hi):
                return mk_concat(acc)
    return ("slice", x, lo, hi)


def list_from_values(I, st, vals):
    parts = []
    for v in vals:
        if isinstance(v, VNat):
            parts.append(("fill", v.p, Poly.const(1)))
        else:
            parts.append(("single", freeze(v)))
    return VSeq(mk_concat(parts))


def iter_elements(I, st, fr, e, itv):
    seq = as_list(I, st, fr, e, itv)
    return [(st, seq_elem(I, st, seq, None))]


# ---------------------------------------------------------------------------------------------
# recognising element-wise results

def _is_ph(a):
    return isinstance(a, tuple) and a and a[0] in ("elem", "enumidx", "el")


BINDERS = {"flat", "lens", "flatlen", "lmap", "emap", "filtermap", "mapwhile", "Fsizes", "Fmap", "sum"}


def _mentions_ph(x):
    if isinstance(x, tuple):
        if _is_ph(x):
            return True
        if x and x[0] in BINDERS:
            return False       # placeholders below a binder are bound there
        return any(_mentions_ph(y) for y in x)
    if isinstance(x, Poly):
        return any(_mentions_ph(a) for a in x.atoms())
    return False


def _ph_atoms(p):
    return [a for a in p.atoms() if _mentions_ph(a)]


def _mentions_ph_of(r, T):
    """Does value r mention the arbitrary element of the mapped list T itself (not of the list underneath)?"""
    key = ("elem", T)
    fz = freeze(r)
    return mentions(fz, {key})


def flat_enum_base(T):
    """The sequence whose positions `enumidx` counts when iterating T."""
    while isinstance(T, tuple) and T and T[0] in ("enum",):
        T = T[1]
    return T


def lift_map(I, st, T, r):
    """The sequence whose arbitrary element is r, where r was computed from the arbitrary
    element of T (placeholders ('elem', X) / ('el', L, f))."""
    r = deref(I, st, r)
    while T[0] in ("lmap", "emap") and not _mentions_ph_of(r, T):
        T = T[1]        # an element-wise map of an element-wise map: one map over the underlying list
    if isinstance(r, VNat):
        at = _ph_atoms(r.p)
        if not at:
            return ("fill", r.p, t_len(T))
        if len(at) == 1 and at[0][0] == "elem":
            X = at[0][1]
            d = r.p - Poly.atom(at[0])
            if not _ph_atoms(d):
                base = mk_gather(st, X[1], X[2]) if X[0] == "gather" else X
                return mk_shift(d, base)
        if len(at) == 1 and at[0][0] == "enumidx" and (at[0][1] == T or at[0][1] == flat_enum_base(T)):
            d = r.p - Poly.atom(at[0])
            if not _ph_atoms(d):
                return mk_arange(d, d + t_len(T))      # offset + running position
        if len(at) == 1 and at[0][0] == "get" and r.p == Poly.atom(at[0]) and not _mentions_ph(at[0][1]):
            # X[i] for the running index i of the enumeration: X re-indexed along 0..len(T)
            ix = as_poly(at[0][2])
            ixat = _ph_atoms(ix)
            if len(ixat) == 1 and ixat[0][0] == "enumidx" and ix == Poly.atom(ixat[0]):
                return mk_gather(st, at[0][1], mk_arange(0, t_len(T)))
            if len(ixat) == 1 and ixat[0][0] in ("elem", "enumidx"):
                # X[k] with k an element-wise function of the list: X re-indexed along the list of the k
                K = lift_map(I, st, T, VNat(ix))
                if K[0] not in ("emap", "lmap"):
                    return mk_gather(st, at[0][1], K)
        if len(at) == 1 and at[0][0] == "len" and r.p == Poly.atom(at[0]):
            # the length of a per-element sequence: sizes of the flattening
            return ("lens", T, at[0][1])
        return ("emap", T, r.p)
    if isinstance(r, VUser) and isinstance(r.key, tuple) and r.key and r.key[0] == "elem":
        X = r.key[1]
        if X[0] == "gather":
            return mk_gather(st, X[1], X[2])
        return X
    if isinstance(r, VUser) and not _mentions_ph(r.key):
        return ("fill", Poly.atom(("lbl", r.key)), t_len(T))
    if isinstance(r, VRec) and r.ty == inv.LEDGE:
        a_, b_ = r.f.get("sources"), r.f.get("targets")
        if isinstance(a_, VSeq) and isinstance(b_, VSeq) and a_.t[0] == "el" and b_.t[0] == "el" and a_.t[1] == b_.t[1] \
                and a_.t[2:] == ("sources",) and b_.t[2:] == ("targets",):
            return a_.t[1]      # the arbitrary hyperedge of a list, unchanged: the list itself
    return ("lmap", T, freeze(r))


# ---------------------------------------------------------------------------------------------
# std handlers

def h_collect(I, st, fr, e, c, a):
    return [(st, as_list(I, st, fr, e, a[0]), None)]


def h_into_iter(I, st, fr, e, c, a):
    v = a[0]
    if isinstance(v, VMutRef):
        inner = deref(I, st, v)
        if isinstance(inner, VSeq):
            return [(st, v, None)]      # iteration by mutable reference: keep the place
    v = deref(I, st, v)
    if isinstance(v, VRec) and v.ty == inv.IC:
        return [(st, as_list(I, st, fr, e, v), None)]
    return [(st, v, None)]


def h_iter_mut(I, st, fr, e, c, a):
    return [(st, a[0], None)]       # VMutRef to the sequence place


def apply_closure_once(I, st, fr, e, f, args):
    outs = I.apply_value(f, args, st, fr, e)
    normal = [(s2, v) for (s2, v, cc) in outs if cc is None]
    if len(normal) != 1 or len(outs) != 1:
        raise NotImplementedError("element closure with %d outcomes" % len(outs))
    return normal[0]


def h_iter_map(I, st, fr, e, c, a):
    seq = as_list(I, st, fr, e, a[0])
    f = a[1]
    if seq.t == EMPTY:
        return [(st, seq, None)]
    if isinstance(f, VFn) and f.kind == "ctor" and f.callee and f.callee["name"] in ("NodeId", "EdgeId", "Some"):
        if f.callee["name"] == "Some":
            return [(st, VSeq(("lmap", seq.t, freeze(some(seq_elem(I, st, seq, None))))), None)]
        return [(st, seq, None)]
    ex = explicit_elems(seq.t)
    if ex is not None:
        states = [(st, [])]
        for x in ex:
            nxt = []
            for (s1, acc) in states:
                for (s2, r, cc) in I.apply_value(f, [x], s1, fr, e):
                    if cc is None:
                        nxt.append((s2, acc + [r]))
            states = nxt
        return [(s1, list_from_values(I, s1, acc), None) for (s1, acc) in states]
    tpl = template_of(I, seq.t)
    if tpl is not None:
        s = st.copy()
        elem = seq_elem(I, s, seq, None)
        s2, r = apply_closure_once(I, s, fr, e, f, [elem])
        key = ("map", seq.t, fkey_of(f))
        term = ("list", key)
        new_facts = s2.lin.facts[len(st.lin.facts):]
        templates(I)[term] = {"elem": r, "facts": list(new_facts),
                              "bnd": {k: v for k, v in s2.bnd.items() if k not in st.bnd}}
        st.add_eq(t_len(term) - t_len(seq.t))
        return [(st, VSeq(term), None)]
    import loops as _loops
    if closure_has_effects(I, f) or _loops.heap_places(I, st, seq):
        return effectful_map(I, st, fr, e, seq, f)
    elem = seq_elem(I, st, seq, None)
    try:
        s2, r = apply_closure_once(I, st, fr, e, f, [elem])
    except Exception as ex:
        raise type(ex)(str(ex) + " [map over " + show_term(seq.t)[:200] + "]")
    return [(s2, VSeq(lift_map(I, s2, seq.t, r)), None)]


def _no_effects(I, f, who):
    """The element-wise adaptors are modelled for pure closures only; a closure that writes captured state would need a
    loop summary (not silently ignored)."""
    if closure_has_effects(I, f):
        raise NotImplementedError(who + ": closure with side effects")


def closure_has_effects(I, f):
    if not isinstance(f, VClosure):
        return False
    import loops
    return bool(loops.modified_roots(I, [f.node["body"]], f.frame))


def effectful_map(I, st, fr, e, seq, f):
    """`.map(|t| self.new_node(t))`: a loop that appends to outer sequences and yields a value
    per element.  Summarised exactly like an append-only for-loop, with the yielded values
    collected into a fresh result sequence."""
    import loops
    roots = loops.modified_roots(I, [f.node["body"]], f.frame)
    f.frame.map_ix = getattr(f.frame, "map_ix", 0) + 1
    rk = ("mapresult", f.frame.map_ix)
    result_key = (f.frame.id, rk)
    st.env[result_key] = VSeq(EMPTY)

    def run_body(s, elem):
        outs = I.apply_value(f, [elem], s, fr, e)
        res = []
        for (s2, v, cc) in outs:
            if cc is None:
                cur = s2.env[result_key]
                v = deref(I, s2, v)
                item = ("fill", v.p, Poly.const(1)) if isinstance(v, VNat) else ("single", freeze(v))
                s2.env[result_key] = VSeq(mk_concat([cur.t, item]))
            res.append((s2, UNIT, cc))
        return res
    allroots = set(roots) | {rk}
    out = append_loop(I, st, f.frame, e, seq, None, None, allroots, run_body)
    if out is None:
        # general case: invariant inference over the modified places (the result becomes an
        # unknown sequence of the right length)
        def body(s):
            return run_body(s, seq_elem(I, s, seq, None))
        head, exits, others = loops.run_loop(I, st, f.frame, e, allroots, body, "map", extra_values=[seq])
        cur = head.env[result_key]
        if isinstance(cur, VSeq):
            head.add_eq(t_len(cur.t) - t_len(seq.t))
        out = [(head, UNIT, None)] + exits + others
    res = []
    for (s2, v, cc) in out:
        res.append((s2, s2.env[result_key], cc))
    return res


def h_iter_fold(I, st, fr, e, c, a):
    """iter.fold(init, f): `let mut acc = init; for x in iter { acc = f(acc, x) }; acc` as a loop over a synthetic
    accumulator place (exact summaries where the idioms apply, invariant inference otherwise)."""
    import loops
    seq = as_list(I, st, fr, e, a[0])
    init, f = a[1], a[2]
    if seq.t == EMPTY:
        return [(st, init, None)]
    cfr = f.frame if isinstance(f, VClosure) else fr
    cfr.map_ix = getattr(cfr, "map_ix", 0) + 1
    rk = ("foldacc", cfr.map_ix)
    key = (cfr.id, rk)
    st.env[key] = init
    roots = {rk}
    if isinstance(f, VClosure):
        roots |= set(loops.modified_roots(I, [f.node["body"]], f.frame))

    def run_body(s, elem):
        res = []
        for (s2, v, cc) in I.apply_value(f, [s.env[key], elem], s, fr, e):
            if cc is None:
                s2.env[key] = deref(I, s2, v) if isinstance(v, VMutRef) else v
                res.append((s2, UNIT, None))
            else:
                res.append((s2, v, cc))
        return res
    out = append_loop(I, st, cfr, e, seq, None, None, roots, run_body)
    if out is None:
        out = fold_loop(I, st, cfr, e, seq, None, None, roots, run_body)
    if out is None:
        def body(s):
            res = []
            for (s1, elem) in iter_elements(I, s, fr, e, a[0]):
                res.extend(run_body(s1, elem))
            return res
        head, exits, others = loops.run_loop(I, st, cfr, e, roots, body, "fold", extra_values=[a[0]])
        out = [(head, UNIT, None)] + exits + others
    res = []
    for (s2, v, cc) in out:
        if cc is None:
            res.append((s2, s2.env.get(key, VTop("fold")), None))
        else:
            res.append((s2, v, cc))
    return res


def h_iter_any(I, st, fr, e, c, a):
    _no_effects(I, a[1], "h_iter_any")
    seq = as_list(I, st, fr, e, a[0])
    if seq.t == EMPTY:
        return [(st, FALSE, None)]
    r = _quantifier(I, st, fr, e, seq, a[1], True)
    if r is not None:
        return r
    return [(st, VBool(("unk", ("any", show_term(seq.t)[:80], fkey_of(a[1])))), None)]


def h_iter_count(I, st, fr, e, c, a):
    seq = as_list(I, st, fr, e, a[0])
    return [(st, VNat(t_len(seq.t)), None)]


def h_iter_take(I, st, fr, e, c, a):
    seq = as_list(I, st, fr, e, a[0])
    n = deref(I, st, a[1])
    if not isinstance(n, VNat):
        raise NotImplementedError("take")
    ln = t_len(seq.t)
    if st.ge(ln, n.p):
        return [(st, VSeq(mk_slice(st, seq.t, Poly.const(0), n.p)), None)]
    if st.ge(n.p, ln):
        return [(st, seq, None)]
    out = []
    for s in I.assume(st.copy(), ("cmp", "ge", ln - n.p)):
        out.append((s, VSeq(mk_slice(s, seq.t, Poly.const(0), n.p)), None))
    for s in I.assume(st.copy(), ("cmp", "ge", n.p - ln - 1)):
        out.append((s, seq, None))
    return out


def h_iter_skip(I, st, fr, e, c, a):
    seq = as_list(I, st, fr, e, a[0])
    n = deref(I, st, a[1])
    if not isinstance(n, VNat):
        raise NotImplementedError("skip")
    ln = t_len(seq.t)
    out = []
    for s in I.assume(st.copy(), ("cmp", "ge", ln - n.p)):
        out.append((s, VSeq(mk_slice(s, seq.t, n.p, ln)), None))
    for s in I.assume(st.copy(), ("cmp", "ge", n.p - ln - 1)):
        out.append((s, VSeq(EMPTY), None))
    return out


def fkey_of(f):
    if isinstance(f, VClosure):
        return ("closure", f.node.get("sp"))
    return repr(f)[:60]


CHAIN_MUT = "chain-of-mutable-iterators"


def _mut_refs(v):
    if isinstance(v, VMutRef):
        return [v]
    if isinstance(v, VRec) and v.ty == CHAIN_MUT:
        return _mut_refs(v.f["0"]) + _mut_refs(v.f["1"])
    return None


def h_chain(I, st, fr, e, c, a):
    ra, rb = _mut_refs(a[0]), _mut_refs(a[1])
    if ra is not None and rb is not None and all(isinstance(deref(I, st, r), VSeq) for r in ra + rb):
        # iter_mut().chain(iter_mut()): iteration by mutable reference over several sequences in turn
        return [(st, VRec(CHAIN_MUT, {"0": a[0], "1": a[1]}), None)]
    x = as_list(I, st, fr, e, a[0])
    y = as_list(I, st, fr, e, a[1])
    return [(st, VSeq(mk_concat([x.t, y.t])), None)]


def h_zip(I, st, fr, e, c, a):
    x = as_list(I, st, fr, e, a[0])
    y = as_list(I, st, fr, e, a[1])
    if x.t == EMPTY or y.t == EMPTY:
        return [(st, VSeq(EMPTY), None)]
    z = ("zip", x.t, y.t)
    if st.eq(t_len(x.t), t_len(y.t)):
        st.add_eq(t_len(z) - t_len(x.t))
    else:
        st.add_ge(t_len(x.t) - t_len(z))
        st.add_ge(t_len(y.t) - t_len(z))
    return [(st, VSeq(z), None)]


def h_enumerate(I, st, fr, e, c, a):
    x = as_list(I, st, fr, e, a[0])
    return [(st, VSeq(("enum", x.t)), None)]


def h_seq_identity(I, st, fr, e, c, a):
    return [(st, as_list(I, st, fr, e, a[0]), None)]


def h_vec_len(I, st, fr, e, c, a):
    v = deref(I, st, a[0])
    if isinstance(v, VSeq):
        return [(st, VNat(seq_len(st, v.t)), None)]
    if isinstance(v, VRec):
        nxt = crate_iterator_next(I, v)
        if nxt is not None:
            for p, f in I.facts.fns.items():
                if f["name"] == "len" and f.get("impl_trait") == "std::iter::ExactSizeIterator" \
                        and f.get("impl_self", "").split("<")[0] == v.ty:
                    return I.call_fn(f, [a[0]], st, fr, e)
    return [(st, VTop("len"), None)]


def seq_len(st, t):
    if t[0] == "zip" and st.eq(t_len(t[1]), t_len(t[2])):
        return t_len(t[1])
    return t_len(t)


def h_is_empty(I, st, fr, e, c, a):
    v = deref(I, st, a[0])
    if isinstance(v, VSeq):
        return [(st, VBool(("cmp", "eq", t_len(v.t))), None)]
    return [(st, VBool(("unk", ("is_empty", e["sp"]))), None)]


def h_vec_new(I, st, fr, e, c, a):
    return [(st, VSeq(EMPTY), None)]


def h_from_elem(I, st, fr, e, c, a):
    v, n = a
    if isinstance(v, VNat) and isinstance(n, VNat):
        return [(st, VSeq(("fill", v.p, n.p)), None)]
    if isinstance(n, VNat) and isinstance(v, VUser):
        return [(st, VSeq(("fill", Poly.atom(("lbl", v.key)), n.p)), None)]
    if isinstance(n, VNat):
        return [(st, VSeq(("fill", Poly.atom(("val", repr(v)[:40])), n.p)), None)]
    return [(st, VTop("from_elem"), None)]


def place_of(I, st, v):
    if not isinstance(v, VMutRef):
        raise NotImplementedError("expected &mut place, got " + repr(v)[:60])
    place = v.place
    cur = I.read_place(st, place)
    while isinstance(cur, VMutRef):
        place = cur.place
        cur = I.read_place(st, place)
    return place, cur


def h_push(I, st, fr, e, c, a):
    place, cur = place_of(I, st, a[0])
    if not isinstance(cur, VSeq):
        raise NotImplementedError("push on " + repr(cur)[:40])
    x = deref(I, st, a[1])
    item = ("fill", x.p, Poly.const(1)) if isinstance(x, VNat) else ("single", freeze(x))
    I.write_place(st, place, VSeq(mk_concat([cur.t, item])))
    return [(st, UNIT, None)]


def h_extend(I, st, fr, e, c, a):
    place, cur = place_of(I, st, a[0])
    y = as_list(I, st, fr, e, a[1])
    I.write_place(st, place, VSeq(mk_concat([cur.t, y.t])))
    return [(st, UNIT, None)]


def h_sort_nat(I, st, fr, e, c, a):
    """v.sort() / v.sort_unstable() on a vector of naturals: the vector re-indexed along its sorting permutation; the
    distinct keys of a map, sorted, are the contract's `spkeys`."""
    place, cur = place_of(I, st, a[0])
    if not isinstance(cur, VSeq):
        raise NotImplementedError("sort on " + type(cur).__name__)
    if label_of(cur.t):
        raise NotImplementedError("sort of labels")
    if cur.t == EMPTY:
        return [(st, UNIT, None)]
    if cur.t[0] == "hmkeys":
        new = ("spkeys", cur.t[1])
    elif cur.t[0] == "spkeys":
        new = cur.t
    else:
        new = mk_gather(st, cur.t, ("argsort", cur.t))
    I.write_place(st, place, VSeq(new))
    return [(st, UNIT, None)]


def h_sort_unstable_by_key(I, st, fr, e, c, a):
    """sort_unstable_by_key: decided only where the order of equal keys cannot matter — the (key, value) entries of a
    map sorted by their (distinct) keys: the entries in ascending key order."""
    _no_effects(I, a[1], "h_sort_unstable_by_key")
    place, cur = place_of(I, st, a[0])
    if isinstance(cur, VSeq) and cur.t == EMPTY:
        return [(st, UNIT, None)]
    t = cur.t if isinstance(cur, VSeq) else None
    if t is not None and t[0] == "zip" and t[1][0] in ("hmkeys", "spkeys") and t[2][0] == "gather" and t[2][2] == t[1]:
        s = st.copy()
        elem = seq_elem(I, s, cur, None)
        s2, r = apply_closure_once(I, s, fr, e, a[1], [elem])
        if isinstance(elem, VTup) and isinstance(r, VNat) and isinstance(elem.items[0], VNat) and r.p == elem.items[0].p:
            k = ("spkeys", t[1][1])
            I.write_place(st, place, VSeq(("zip", k, mk_gather(st, t[2][1], k))))
            return [(st, UNIT, None)]
    raise NotImplementedError("sort_unstable_by_key with possibly equal keys")


def h_split_off(I, st, fr, e, c, a):
    """v.split_off(k): returns v[k..], v keeps v[..k]; panics when k > len."""
    place, cur = place_of(I, st, a[0])
    k = deref(I, st, a[1])
    if not isinstance(cur, VSeq) or not isinstance(k, VNat):
        raise NotImplementedError("split_off")
    n = t_len(cur.t)
    I.pre_ge(st, fr, e, "split_off", n, k.p, f"{show_poly(k.p)} <= len({show_term(cur.t)})")
    import prims
    I.write_place(st, place, VSeq(prims.mk_slice(st, cur.t, Poly.const(0), k.p)))
    return [(st, VSeq(prims.mk_slice(st, cur.t, k.p, n)), None)]


def h_windows(I, st, fr, e, c, a):
    """slice.windows(2) over naturals: the list of the pairs [x[i], x[i+1]] (as two-element slices)."""
    v = deref(I, st, a[0])
    k = deref(I, st, a[1])
    if not (isinstance(v, VSeq) and isinstance(k, VNat) and k.p == Poly.const(2)) or label_of(v.t):
        raise NotImplementedError("windows")
    n = t_len(v.t)
    if st.eq(n, 0) or st.eq(n, 1):
        return [(st, VSeq(EMPTY), None)]
    if not st.ge(n, 1):
        raise NotImplementedError("windows of a possibly empty slice")
    import prims
    A = prims.mk_slice(st, v.t, Poly.const(0), n - 1)
    B = prims.mk_slice(st, v.t, Poly.const(1), n)
    Z = ("zip", A, B)
    el = seq_elem(I, st, VSeq(Z), None)
    pair = VSeq(mk_concat([("fill", el.items[0].p, Poly.const(1)), ("fill", el.items[1].p, Poly.const(1))]))
    return [(st, VSeq(("lmap", Z, freeze(pair))), None)]


def h_dedup(I, st, fr, e, c, a):
    """v.dedup(): consecutive repeats removed (NOT the distinct values unless v is sorted)."""
    place, cur = place_of(I, st, a[0])
    if not isinstance(cur, VSeq):
        raise NotImplementedError("dedup on " + type(cur).__name__)
    if cur.t == EMPTY or cur.t[0] in ("spkeys", "hmkeys"):
        return [(st, UNIT, None)]
    t = cur.t
    if t[0] == "gather" and t[2] == ("argsort", t[1]):
        new = ("spkeys", t[1])          # sorted, then consecutive repeats removed: the distinct values, ascending
    else:
        new = ("dedup", t)
        st.add_ge(t_len(t) - t_len(new))
    I.write_place(st, place, VSeq(new))
    return [(st, UNIT, None)]


def h_to_owned(I, st, fr, e, c, a):
    """to_owned(): an owned copy of the same value (a slice's Vec, a clone otherwise)."""
    return [(st, deref(I, st, a[0]), None)]


def h_capacity_noop(I, st, fr, e, c, a):
    """reserve / shrink_to_fit: capacity only, the contents are untouched."""
    return [(st, UNIT, None)]


def h_append(I, st, fr, e, c, a):
    """a.append(&mut b): a becomes a ++ b, b becomes empty."""
    place, cur = place_of(I, st, a[0])
    place2, other = place_of(I, st, a[1])
    if not isinstance(cur, VSeq) or not isinstance(other, VSeq):
        raise NotImplementedError("append on " + type(cur).__name__ + " / " + type(other).__name__)
    I.write_place(st, place, VSeq(mk_concat([cur.t, other.t])))
    I.write_place(st, place2, VSeq(EMPTY))
    return [(st, UNIT, None)]


def h_pop(I, st, fr, e, c, a):
    """v.pop(): None on the empty vector, else the last element (removed)."""
    place, cur = place_of(I, st, a[0])
    if not isinstance(cur, VSeq):
        raise NotImplementedError("pop on " + type(cur).__name__)
    n = t_len(cur.t)
    out = []
    for s in I.assume(st.copy(), ("cmp", "eq", n)):
        out.append((s, NONE, None))
    for s in I.assume(st.copy(), ("cmp", "ge", n - 1)):
        last = seq_elem(I, s, cur, n - 1)
        I.write_place(s, place, VSeq(mk_slice(s, cur.t, Poly.const(0), n - 1)))
        out.append((s, some(last), None))
    return out


def h_truncate(I, st, fr, e, c, a):
    place, cur = place_of(I, st, a[0])
    n = a[1].p
    if st.ge(t_len(cur.t), n):
        I.write_place(st, place, VSeq(mk_slice(st, cur.t, Poly.const(0), n)))
    else:
        I.write_place(st, place, VSeq(("truncate", cur.t, n)))
    return [(st, UNIT, None)]


def h_take(I, st, fr, e, c, a):
    place, cur = place_of(I, st, a[0])
    I.write_place(st, place, VSeq(EMPTY) if isinstance(cur, VSeq) else VTop("taken"))
    return [(st, cur, None)]


def h_clear(I, st, fr, e, c, a):
    place, cur = place_of(I, st, a[0])
    I.write_place(st, place, VSeq(EMPTY))
    return [(st, UNIT, None)]


def h_last(I, st, fr, e, c, a):
    v = deref(I, st, a[0])
    if not isinstance(v, VSeq):
        raise NotImplementedError("last on " + type(v).__name__)
    n = t_len(v.t)
    out = []
    for s in I.assume(st.copy(), ("cmp", "eq", n)):
        out.append((s, NONE, None))
    for s in I.assume(st.copy(), ("cmp", "ge", n - 1)):
        out.append((s, some(seq_elem(I, s, v, n - 1)), None))
    return out


def h_mem_replace(I, st, fr, e, c, a):
    place, cur = place_of(I, st, a[0])
    I.write_place(st, place, deref(I, st, a[1]) if isinstance(a[1], VMutRef) else a[1])
    return [(st, cur, None)]


def h_mem_swap(I, st, fr, e, c, a):
    p1, v1 = place_of(I, st, a[0])
    p2, v2 = place_of(I, st, a[1])
    I.write_place(st, p1, v2)
    I.write_place(st, p2, v1)
    return [(st, UNIT, None)]


def h_drain(I, st, fr, e, c, a):
    """v.drain(range): yields v[range] and leaves the elements before and after it."""
    place, cur = place_of(I, st, a[0])
    if not isinstance(cur, VSeq):
        raise NotImplementedError("drain on " + type(cur).__name__)
    import prims
    n = t_len(cur.t)
    lo, hi = prims._range(I, st, cur.t, deref(I, st, a[1]))
    if not lo.t and st.eq(hi, n):
        I.write_place(st, place, VSeq(EMPTY))
        return [(st, cur, None)]
    I.pre_ge(st, fr, e, "drain", hi, lo, f"{show_poly(lo)} <= {show_poly(hi)}")
    I.pre_ge(st, fr, e, "drain", n, hi, f"{show_poly(hi)} <= len({show_term(cur.t)})")
    taken = prims.mk_slice(st, cur.t, lo, hi)
    rest = mk_concat([prims.mk_slice(st, cur.t, Poly.const(0), lo), prims.mk_slice(st, cur.t, hi, n)])
    I.write_place(st, place, VSeq(rest))
    return [(st, VSeq(taken), None)]


def h_for_each(I, st, fr, e, c, a):
    recv, f = a
    if isinstance(recv, VMutRef):
        place, cur = place_of(I, st, recv)
        if isinstance(cur, VSeq):
            if cur.t == EMPTY:
                return [(st, UNIT, None)]
            slot = (fr.id, ("elemslot", id(e)))
            st.env[slot] = seq_elem(I, st, cur, None)
            s2, r = apply_closure_once(I, st, fr, e, f, [VMutRef((slot, ()))])
            newv = s2.env[slot]
            I.write_place(s2, place, VSeq(lift_map(I, s2, cur.t, newv)))
            return [(s2, UNIT, None)]
    seq = as_list(I, st, fr, e, recv)
    if seq.t == EMPTY:
        return [(st, UNIT, None)]
    if closure_has_effects(I, f):
        # a loop in disguise: summarise it like `for x in seq { f(x) }`
        import loops
        cfr = f.frame
        roots = set(loops.modified_roots(I, [f.node["body"]], cfr))

        def run_body(s, elem):
            return [(s2, UNIT if ctl is None else r, ctl) for (s2, r, ctl) in I.apply_value(f, [elem], s, fr, e)]
        r = append_loop(I, st, cfr, e, seq, None, None, roots, run_body)
        if r is None:
            r = fold_loop(I, st, cfr, e, seq, None, None, roots, run_body)
        if r is not None:
            return r

        def body(s):
            res = []
            for (s1, elem) in iter_elements(I, s, fr, e, recv):
                res.extend(run_body(s1, elem))
            return res
        head, exits, others = loops.run_loop(I, st, cfr, e, roots, body, "for_each", extra_values=[recv])
        return [(head, UNIT, None)] + exits + others
    s2, r = apply_closure_once(I, st, fr, e, f, [seq_elem(I, st, seq, None)])
    return [(s2, UNIT, None)]


def h_filter_map(I, st, fr, e, c, a):
    _no_effects(I, a[1], "h_filter_map")
    seq = as_list(I, st, fr, e, a[0])
    precise = _filter_map_as_loop(I, st, fr, e, seq, a[1])
    if precise is not None:
        return precise
    return [(st, VSeq(filter_map_term(I, st, fr, e, seq, a[1])), None)]


def h_map_while(I, st, fr, e, c, a):
    """iter.map_while(f): the images of the longest PREFIX on which f answers Some (not a filter: it stops at the first
    None).  The term records the list and the Some-valued element terms, like filter_map's, under another head."""
    _no_effects(I, a[1], "h_map_while")
    seq = as_list(I, st, fr, e, a[0])
    if seq.t == EMPTY:
        return [(st, VSeq(EMPTY), None)]
    t = filter_map_term(I, st, fr, e, seq, a[1])
    if t[0] == "filtermap":
        t = ("mapwhile",) + t[1:]
        st.add_ge(t_len(seq.t) - t_len(t))
    return [(st, VSeq(t), None)]


def _filter_map_as_loop(I, st, fr, e, seq, f):
    """filter_map(f) as the loop `for x in seq { if let Some(y) = f(x) { out.push(y) } }`, summarised by the
    conditional-push idiom (a selection by the path condition of the `Some` outcome).  None when f's answer is not an
    explicit Some / None on every path."""
    if seq.t == EMPTY:
        return [(st, VSeq(EMPTY), None)]
    out_root = ("filter-map-out", id(e))
    s0 = st.copy()
    s0.env[(fr.id, out_root)] = VSeq(EMPTY)
    explicit = [True]

    def run_body(s, elem):
        res = []
        for (s2, r, ctl) in I.apply_value(f, [elem], s, fr, e):
            if ctl is not None:
                res.append((s2, r, ctl))
                continue
            if isinstance(r, VEnum) and r.variant == "Some" and isinstance(r.payload[0], VNat):
                curo = s2.env[(fr.id, out_root)]
                s2.env[(fr.id, out_root)] = VSeq(mk_concat([curo.t, ("fill", r.payload[0].p, Poly.const(1))]))
            elif isinstance(r, VEnum) and r.variant == "None":
                pass
            else:
                explicit[0] = False
            res.append((s2, UNIT, None))
        return res
    n_ob = len(I.obligations)
    try:
        r = fold_loop(I, s0, fr, e, seq, None, None, {out_root}, run_body)
    except (NotImplementedError, TypeError, KeyError, AttributeError):
        r = None
    if r is None or not explicit[0]:
        del I.obligations[n_ob:]
        return None
    s2 = r[0][0]
    newv = s2.env.pop((fr.id, out_root))
    return [(s2, newv, None)]


def filter_map_term(I, st, fr, e, seq, f):
    """filter_map(|x| m[x.0].map(NodeId)) and friends: a subsequence of mapped elements; the term
    records the source sequence and the partial map used (the Some-valued element terms)."""
    if seq.t == EMPTY:
        return EMPTY
    s = st.copy()
    elem = seq_elem(I, s, seq, None)
    outs = I.apply_value(f, [elem], s, fr, e)
    somes = []
    for (s2, v, cc) in outs:
        if isinstance(v, VEnum) and v.variant == "Some":
            somes.append(freeze(v.payload[0]))
        elif isinstance(v, (VUser, VTop)):
            somes.append(freeze(v))
    t = ("filtermap", seq.t, tuple(somes))
    st.add_ge(t_len(seq.t) - t_len(t))
    return t


def _rename_poly(st, p, M):
    mapping = {}
    for at in p.atoms():
        if isinstance(at, tuple) and at and at[0] == "enumidx":
            # the ORIGINAL position of a selected element: an element of the selected sub-sequence of 0..len
            new = ("elem", ("sel", mk_arange(0, t_len(at[1])), M))
            mapping[at] = Poly.atom(new)
            st.add_ge(t_len(at[1]) - Poly.atom(new) - 1)
        if isinstance(at, tuple) and at and at[0] == "elem":
            new = ("elem", ("sel", at[1], M))
            mapping[at] = Poly.atom(new)
            for b in ubs(st, at[1]):
                st.add_ge(b - Poly.atom(new) - 1)
    return p.subst(mapping) if mapping else p


def rename_selected(st, v, M):
    """v is built from the arbitrary elements ('elem', X) of some sequences X; the same value over the elements of
    the sub-sequences ('sel', X, M) selected by mask M."""
    if isinstance(v, VNat):
        return VNat(_rename_poly(st, v.p, M))
    if isinstance(v, VUser) and isinstance(v.key, tuple) and v.key and v.key[0] == "elem":
        return VUser(("elem", ("sel", v.key[1], M)))
    if isinstance(v, VTup):
        return VTup([rename_selected(st, x, M) for x in v.items])
    if isinstance(v, VRec):
        return VRec(v.ty, {k: rename_selected(st, x, M) for k, x in v.f.items()})
    if isinstance(v, VSeq):
        return VSeq(_rename_term(v.t, M))
    return v


def _rename_term(t, M):
    """Inside a term: the arbitrary element of X becomes the arbitrary element of sel(X, M)."""
    if isinstance(t, tuple):
        if len(t) >= 2 and t[0] in ("el", "elem") and isinstance(t[1], tuple) and not (t[1] and t[1][0] == "sel" and t[1][2] == M):
            return (t[0], ("sel", t[1], M)) + tuple(t[2:])
        return tuple(_rename_term(x, M) for x in t)
    if isinstance(t, Poly):
        mapping = {}
        for at in t.atoms():
            n = _rename_term(at, M)
            if n != at:
                mapping[at] = Poly.atom(n)
        return t.subst(mapping) if mapping else t
    return t


def h_filter(I, st, fr, e, c, a):
    """iter.filter(pred): the sub-list at the positions where pred holds.  The mask term records the list and the
    predicate as a formula over the list's arbitrary element."""
    _no_effects(I, a[1], "h_filter")
    seq = as_list(I, st, fr, e, a[0])
    if seq.t == EMPTY:
        return [(st, seq, None)]
    s = st.copy()
    elem = seq_elem(I, s, seq, None)
    outs = I.apply_value(a[1], [elem], s, fr, e)
    normal = [(s2, v) for (s2, v, cc) in outs if cc is None]
    if len(outs) == 1 and len(normal) == 1 and isinstance(normal[0][1], VBool):
        cond = normal[0][1].f
    else:
        cond = ("unk", ("filter-pred", fkey_of(a[1])))
    M = make_mask(I, st, seq.t, cond)
    t = ("lfilter", seq.t, M) if seq.t[0] in ("zip", "enum") else ("sel", seq.t, M)
    term_facts(st, t)
    return [(st, VSeq(t), None)]


def h_retain(I, st, fr, e, c, a):
    """v.retain(pred): as a loop over v that pushes the elements for which pred holds (pred may advance a counter)."""
    place, cur = place_of(I, st, a[0])
    if not isinstance(cur, VSeq):
        raise NotImplementedError("retain on " + type(cur).__name__)
    if cur.t == EMPTY:
        return [(st, UNIT, None)]
    f = a[1]
    import loops
    out_root = ("retain-out", id(e))
    st.env[(fr.id, out_root)] = VSeq(EMPTY)
    roots = {out_root}
    if isinstance(f, VClosure):
        roots |= set(loops.modified_roots(I, [f.node["body"]], f.frame))

    def run_body(s, elem):
        res = []
        for (s2, r, ctl) in I.apply_value(f, [elem], s, fr, e):
            if ctl is not None:
                res.append((s2, r, ctl))
                continue
            fb = r.f if isinstance(r, VBool) else ("unk", ("retain", e.get("sp", "?")))
            yes, no = I.branch(s2, fb)
            for s3 in yes:
                curo = s3.env[(fr.id, out_root)]
                s3.env[(fr.id, out_root)] = VSeq(mk_concat([curo.t, ("single", freeze(elem))])) if not isinstance(elem, VNat) \
                    else VSeq(mk_concat([curo.t, ("fill", elem.p, Poly.const(1))]))
                res.append((s3, UNIT, None))
            for s3 in no:
                res.append((s3, UNIT, None))
        return res
    r = fold_loop(I, st, fr, e, cur, None, None, roots, run_body)
    if r is None:
        raise NotImplementedError("retain: predicate outside the summarised idioms")
    s2 = r[0][0]
    newv = s2.env.pop((fr.id, out_root))
    I.write_place(s2, place, newv)
    return [(s2, UNIT, None)]


def h_unzip(I, st, fr, e, c, a):
    seq = as_list(I, st, fr, e, a[0])
    if seq.t == EMPTY:
        return [(st, VTup([VSeq(EMPTY), VSeq(EMPTY)]), None)]
    elem = seq_elem(I, st, seq, None)
    elem = deref(I, st, elem)
    if not isinstance(elem, VTup) or len(elem.items) != 2:
        # a list whose elements the analysis only summarised: two unknown lists of that length
        outs_ = []
        for i in (0, 1):
            lf = leaf(("top-iter", ("unzip", i, seq.t)))
            st.add_eq(t_len(lf) - t_len(seq.t))
            outs_.append(VSeq(lf))
        return [(st, VTup(outs_), None)]
    return [(st, VTup([VSeq(lift_map(I, st, seq.t, x)) for x in elem.items]), None)]


def h_repeat_n(I, st, fr, e, c, a):
    v, n = deref(I, st, a[0]), deref(I, st, a[1])
    if isinstance(n, VNat) and isinstance(v, VNat):
        return [(st, VSeq(("fill", v.p, n.p)), None)]
    if isinstance(n, VNat) and isinstance(v, VUser):
        return [(st, VSeq(("fill", Poly.atom(("lbl", v.key)), n.p)), None)]
    return [(st, VTop("repeat_n"), None)]


def h_iter_max(I, st, fr, e, c, a):
    import prims
    seq = as_list(I, st, fr, e, a[0])
    if label_of(seq.t):
        return [(st, VTop("max of labels"), None)]
    return prims.p_max(I, st, fr, e, c, [seq])


def h_sort_by_key(I, st, fr, e, c, a):
    """list.sort_by_key(key): the list re-indexed along the (stable) sorting permutation of its keys."""
    _no_effects(I, a[1], "h_sort_by_key")
    place, cur = place_of(I, st, a[0])
    if cur.t == EMPTY:
        return [(st, UNIT, None)]
    s = st.copy()
    elem = seq_elem(I, s, cur, None)
    s2, r = apply_closure_once(I, s, fr, e, a[1], [elem])
    K = lift_map(I, st, cur.t, r)
    perm = ("argsort", K)
    if cur.t[0] == "arange" and st.eq(cur.t[1], 0):
        new = perm
    else:
        new = mk_gather(st, cur.t, perm)
    I.write_place(st, place, VSeq(new))
    return [(st, UNIT, None)]


def h_clone_from_slice(I, st, fr, e, c, a):
    raise NotImplementedError("clone_from_slice")


def h_flat_map(I, st, fr, e, c, a):
    _no_effects(I, a[1], "h_flat_map")
    seq = as_list(I, st, fr, e, a[0])
    f = a[1]
    if seq.t == EMPTY:
        return [(st, seq, None)]
    elem = seq_elem(I, st, seq, None)
    s2, r = apply_closure_once(I, st, fr, e, f, [elem])
    r = as_list(I, s2, fr, e, r)
    return [(s2, VSeq(("flat", seq.t, r.t)), None)]


def h_sum(I, st, fr, e, c, a):
    seq = as_list(I, st, fr, e, a[0])
    return [(st, VNat(t_sum(seq.t)), None)]


def _quantifier(I, st, fr, e, seq, f, stop_on):
    """all / any over an explicitly enumerated list: evaluate the predicate element by element with the short-circuit
    of the standard library (stop at the first false for `all`, at the first true for `any`)."""
    ex = explicit_elems(seq.t)
    if ex is None:
        return None
    live = [st]
    out = []
    for x in ex:
        nxt = []
        for s1 in live:
            for (s2, r, cc) in I.apply_value(f, [x], s1, fr, e):
                if cc is not None:
                    out.append((s2, r, cc))
                    continue
                fb = r.f if isinstance(r, VBool) else ("unk", ("quantifier", e.get("sp", "?")))
                yes, no = I.branch(s2, fb)
                stop, go = (no, yes) if stop_on is False else (yes, no)
                out.extend((s3, FALSE if stop_on is False else TRUE, None) for s3 in stop)
                nxt.extend(go)
        live = nxt
    out.extend((s1, TRUE if stop_on is False else FALSE, None) for s1 in live)
    return out


def _predicate_literal(I, st, fr, e, seq, f):
    """True / False when the (pure) predicate evaluates to that literal on the arbitrary element of the list, else None."""
    n_ob = len(I.obligations)
    try:
        s = st.copy()
        elem = seq_elem(I, s, seq, None)
        outs = I.apply_value(f, [elem], s, fr, e)
    except Exception:
        del I.obligations[n_ob:]
        return None
    del I.obligations[n_ob:]
    vals = set()
    for (s2, r, cc) in outs:
        if cc is not None or not isinstance(r, VBool):
            return None
        if r.f == ("true",):
            vals.add(True)
        elif r.f == ("false",):
            vals.add(False)
        else:
            return None
    return vals.pop() if len(vals) == 1 else None


def h_all(I, st, fr, e, c, a):
    _no_effects(I, a[1], "h_all")
    seq = as_list(I, st, fr, e, a[0])
    if seq.t == EMPTY:
        return [(st, TRUE, None)]
    r = _quantifier(I, st, fr, e, seq, a[1], False)
    if r is not None:
        return r
    # the predicate on the arbitrary element: when it is decided there (the same for every element), so is the quantifier
    lit = _predicate_literal(I, st, fr, e, seq, a[1])
    if lit is not None:
        out = []
        for s1 in I.assume(st.copy(), ("cmp", "eq", t_len(seq.t))):
            out.append((s1, TRUE, None))
        for s1 in I.assume(st.copy(), ("cmp", "ge", t_len(seq.t) - 1)):
            out.append((s1, TRUE if lit else FALSE, None))
        return out
    return [(st, VBool(("unk", ("all", show_term(seq.t)[:80], fkey_of(a[1]), seq.t))), None)]


def h_first(I, st, fr, e, c, a):
    v = deref(I, st, a[0])
    out = []
    for s in I.assume(st.copy(), ("cmp", "eq", t_len(v.t))):
        out.append((s, NONE, None))
    for s in I.assume(st.copy(), ("cmp", "ge", t_len(v.t) - 1)):
        out.append((s, some(seq_elem(I, s, v, Poly.const(0))), None))
    return out


def h_split_first(I, st, fr, e, c, a):
    """slice.split_first(): None on the empty slice, else (first element, the rest)."""
    v = deref(I, st, a[0])
    if not isinstance(v, VSeq):
        raise NotImplementedError("split_first on " + type(v).__name__)
    n = t_len(v.t)
    out = []
    for s in I.assume(st.copy(), ("cmp", "eq", n)):
        out.append((s, NONE, None))
    for s in I.assume(st.copy(), ("cmp", "ge", n - 1)):
        out.append((s, some(VTup([seq_elem(I, s, v, Poly.const(0)), VSeq(mk_slice(s, v.t, Poly.const(1), n))])), None))
    return out


def h_split_last(I, st, fr, e, c, a):
    v = deref(I, st, a[0])
    if not isinstance(v, VSeq):
        raise NotImplementedError("split_last on " + type(v).__name__)
    n = t_len(v.t)
    out = []
    for s in I.assume(st.copy(), ("cmp", "eq", n)):
        out.append((s, NONE, None))
    for s in I.assume(st.copy(), ("cmp", "ge", n - 1)):
        out.append((s, some(VTup([seq_elem(I, s, v, n - 1), VSeq(mk_slice(s, v.t, Poly.const(0), n - 1))])), None))
    return out


def h_next(I, st, fr, e, c, a):
    recv = a[0]
    if isinstance(recv, VMutRef):
        place, cur = place_of(I, st, recv)
        if isinstance(cur, VSeq):
            out = []
            for s in I.assume(st.copy(), ("cmp", "eq", t_len(cur.t))):
                out.append((s, NONE, None))
            for s in I.assume(st.copy(), ("cmp", "ge", t_len(cur.t) - 1)):
                first = seq_elem(I, s, cur, Poly.const(0))
                I.write_place(s, place, VSeq(mk_slice(s, cur.t, Poly.const(1), t_len(cur.t))))
                out.append((s, some(first), None))
            return out
        nxt = crate_iterator_next(I, cur)
        if nxt is not None:
            return I.call_fn(nxt, [recv], st, fr, e)
    raise NotImplementedError("Iterator::next on " + repr(recv)[:60])


def h_once(I, st, fr, e, c, a):
    x = deref(I, st, a[0])
    if isinstance(x, VNat):
        return [(st, VSeq(("fill", x.p, Poly.const(1))), None)]
    if isinstance(x, VUser):
        return [(st, VSeq(("fill", Poly.atom(("lbl", x.key)), Poly.const(1))), None)]
    return [(st, VSeq(("single", freeze(x))), None)]


def h_index(I, st, fr, e, c, a):
    return index_expr(I, st, fr, e, a[0], a[1])


def h_index_mut(I, st, fr, e, c, a):
    recv = a[0]
    ix = deref(I, st, a[1])
    if isinstance(recv, VMutRef) and isinstance(ix, VNat):
        place, cur = place_of(I, st, recv)
        if isinstance(cur, VSeq):
            I.pre_ge(st, fr, e, "index_mut", t_len(cur.t), ix.p + 1, f"{show_poly(ix.p)} < len({show_term(cur.t)})")
        return [(st, VMutRef((place[0], place[1] + (("idx", ix.p),))), None)]
    if isinstance(recv, VMutRef) and isinstance(ix, (VRange, VRec)):
        import prims
        place, cur = place_of(I, st, recv)
        if isinstance(cur, VSeq):
            lo, hi = prims._range(I, st, cur.t, ix)
            I.pre_ge(st, fr, e, "slice", hi, lo, f"{show_poly(lo)} <= {show_poly(hi)}")
            I.pre_ge(st, fr, e, "slice", t_len(cur.t), hi, f"{show_poly(hi)} <= len({show_term(cur.t)})")
            return [(st, VMutRef((place[0], place[1] + (("range", lo, hi),))), None)]
    raise NotImplementedError("index_mut")


def h_clone_from_slice2(I, st, fr, e, c, a):
    """dst.clone_from_slice(src) / copy_from_slice: dst (a place, possibly a sub-range) := src; lengths must agree."""
    dst, src = a[0], deref(I, st, a[1])
    if not isinstance(dst, VMutRef) or not isinstance(src, VSeq):
        raise NotImplementedError("clone_from_slice")
    cur = I.read_place(st, dst.place)
    if isinstance(cur, VSeq):
        I.pre_eq(st, fr, e, "clone_from_slice", t_len(cur.t), t_len(src.t))
    I.write_place(st, dst.place, src)
    return [(st, UNIT, None)]


def h_first_arg(I, st, fr, e, c, a):
    return [(st, a[0], None)]


HEAP_COUNTER = [0]


def h_refcell_new(I, st, fr, e, c, a):
    HEAP_COUNTER[0] += 1
    root = ("heap", "cell", fr.fn["path"] if fr.fn else "?", HEAP_COUNTER[0])
    st.env[root] = deref(I, st, a[0])
    return [(st, VMutRef((root, ())), None)]


def h_borrow_mut(I, st, fr, e, c, a):
    v = a[0]
    if isinstance(v, VMutRef):
        return [(st, v, None)]
    raise NotImplementedError("borrow_mut on " + repr(v)[:60])


def h_into_inner(I, st, fr, e, c, a):
    return [(st, deref(I, st, a[0]), None)]


def h_try_unwrap(I, st, fr, e, c, a):
    # Ok(cell) when this is the only handle, Err(handle) otherwise: both are possible
    s2 = st.copy()
    return [(st, ok(a[0]), None), (s2, err(a[0]), None)]


def h_second_arg(I, st, fr, e, c, a):
    return [(st, a[1], None)]


def h_unit(I, st, fr, e, c, a):
    return [(st, UNIT, None)]


TABLE = {
    "std::iter::Iterator::collect": h_collect,
    "std::iter::IntoIterator::into_iter": h_into_iter,
    "std::iter::Iterator::map": h_iter_map,
    "std::iter::Iterator::chain": h_chain,
    "std::iter::Iterator::zip": h_zip,
    "std::iter::Iterator::enumerate": h_enumerate,
    "std::iter::Iterator::filter_map": h_filter_map,
    "std::iter::Iterator::filter": h_filter,
    "std::iter::Iterator::fold": h_iter_fold,
    "std::iter::Iterator::any": h_iter_any,
    "std::iter::Iterator::count": h_iter_count,
    "std::iter::Iterator::take": h_iter_take,
    "std::iter::Iterator::skip": h_iter_skip,
    "std::vec::Vec::<T, A>::retain": h_retain,
    "std::iter::Iterator::unzip": h_unzip,
    "std::iter::Iterator::flat_map": h_flat_map,
    "std::iter::Iterator::for_each": h_for_each,
    "std::iter::Iterator::sum": h_sum,
    "std::iter::Iterator::all": h_all,
    "std::iter::Iterator::next": h_next,
    "std::iter::once": h_once,
    "std::vec::Vec::<T, A>::len": h_vec_len,
    "core::slice::<impl [T]>::len": h_vec_len,
    "std::iter::ExactSizeIterator::len": h_vec_len,
    "std::vec::Vec::<T, A>::is_empty": h_is_empty,
    "core::slice::<impl [T]>::is_empty": h_is_empty,
    "core::slice::<impl [T]>::iter": h_seq_identity,
    "core::slice::<impl [T]>::iter_mut": h_iter_mut,
    "core::slice::<impl [T]>::first": h_first,
    "core::slice::<impl [T]>::split_first": h_split_first,
    "core::slice::<impl [T]>::split_last": h_split_last,
    "std::iter::Iterator::cloned": h_seq_identity,
    "std::iter::Iterator::copied": h_seq_identity,
    "std::slice::<impl [T]>::to_vec": h_seq_identity,
    "std::borrow::ToOwned::to_owned": h_to_owned,
    "std::iter::Iterator::copied": h_seq_identity,
    "std::vec::Vec::<T>::new": h_vec_new,
    "std::vec::Vec::<T>::with_capacity": h_vec_new,
    "std::vec::from_elem": h_from_elem,
    "std::vec::Vec::<T, A>::push": h_push,
    "std::iter::Extend::extend": h_extend,
    "std::vec::Vec::<T, A>::extend_from_slice": h_extend,
    "std::iter::repeat_n": h_repeat_n,
    "std::iter::Iterator::max": h_iter_max,
    "std::slice::<impl [T]>::sort_by_key": h_sort_by_key,
    "std::vec::Vec::<T, A>::truncate": h_truncate,
    "std::vec::Vec::<T, A>::pop": h_pop,
    "std::vec::Vec::<T, A>::drain": h_drain,
    "std::mem::take": h_take,
    "std::mem::replace": h_mem_replace,
    "std::mem::swap": h_mem_swap,
    "std::vec::Vec::<T, A>::clear": h_clear,
    "std::vec::Vec::<T, A>::append": h_append,
    "core::slice::<impl [T]>::sort_unstable": h_sort_nat,
    "std::slice::<impl [T]>::sort": h_sort_nat,
    "std::vec::Vec::<T, A>::dedup": h_dedup,
    "std::iter::Iterator::map_while": h_map_while,
    "std::vec::Vec::<T, A>::split_off": h_split_off,
    "core::slice::<impl [T]>::windows": h_windows,
    "core::slice::<impl [T]>::sort_unstable_by_key": h_sort_unstable_by_key,
    "std::vec::Vec::<T, A>::reserve": h_capacity_noop,
    "std::vec::Vec::<T, A>::reserve_exact": h_capacity_noop,
    "std::vec::Vec::<T, A>::shrink_to_fit": h_capacity_noop,
    "std::vec::Vec::<T, A>::shrink_to": h_capacity_noop,
    "core::slice::<impl [T]>::clone_from_slice": h_clone_from_slice2,
    "core::slice::<impl [T]>::copy_from_slice": h_clone_from_slice2,
    "core::slice::<impl [T]>::last": h_last,
    "std::ops::Index::index": h_index,
    "std::ops::IndexMut::index_mut": h_index_mut,
    "std::boxed::Box::<T>::new": h_first_arg,
    "std::rc::Rc::<T>::new": h_first_arg,
    "std::cell::RefCell::<T>::new": h_refcell_new,
    "std::cell::RefCell::<T>::borrow_mut": h_borrow_mut,
    "std::cell::RefCell::<T>::into_inner": h_into_inner,
    "std::rc::Rc::<T, A>::try_unwrap": h_try_unwrap,
    "std::boxed::Box::<T>::new_uninit": h_unit,
    "alloc::intrinsics::write_box_via_move": h_second_arg,
    "std::boxed::box_assume_init_into_vec_unsafe": h_first_arg,
}


# ---------------------------------------------------------------------------------------------
# for-loop summaries

def summarise_for(I, st, fr, e, itv, pat, body, roots):
    """Exact summaries for two loop idioms (anything else falls back to invariant inference):
      (a) in-place element update: `for x in &mut seq { ...writes through x only... }`
      (b) append-only loops: every modified sequence place P ends one iteration as concat(P, X)
          with X independent of the prefix."""
    if isinstance(itv, VRec) and itv.ty == CHAIN_MUT:
        # the same body applied, in place, to each of the chained sequences in turn
        states = [st]
        for ref in _mut_refs(itv):
            nxt = []
            for s1 in states:
                r = summarise_for(I, s1, fr, e, ref, pat, body, roots)
                if r is None or any(c is not None for (_, _, c) in r):
                    # outside the in-place idiom: what the body wrote is unknown for every chained sequence
                    for ref2 in _mut_refs(itv):
                        pl, cur2 = place_of(I, st, ref2)
                        if isinstance(cur2, VSeq):
                            lf = leaf(("loopvar", (fr.fn["path"] if fr.fn else "?", "loop-chain", "iter_mut"), str(pl[1])))
                            st.add_eq(t_len(lf) - t_len(cur2.t))
                            I.write_place(st, pl, VSeq(lf))
                    return [(st, UNIT, None)]
                nxt.extend(s2 for (s2, _, _) in r)
            states = nxt
        return [(s1, UNIT, None) for s1 in states]
    if isinstance(itv, VMutRef):
        place, cur = place_of(I, st, itv)
        if isinstance(cur, VSeq):
            if cur.t == EMPTY:
                return [(st, UNIT, None)]
            outer = {r for r in roots if (fr.id, r) in st.env and not _is_pattern_local(pat, r)}
            if outer:
                return None
            slot = (fr.id, ("elemslot", id(e)))
            st.env[slot] = seq_elem(I, st, cur, None)
            m, u = I.match_pat(pat, VMutRef((slot, ())), st, fr)
            if len(m) != 1:
                return None
            outs = I.ev(body, m[0], fr)
            if len(outs) != 1 or outs[0][2] is not None:
                return None
            s2 = outs[0][0]
            newv = s2.env[slot]
            I.write_place(s2, place, VSeq(lift_map(I, s2, cur.t, newv)))
            return [(s2, UNIT, None)]
        return None
    seq = as_list(I, st, fr, e, itv)
    if seq.t == EMPTY:
        return [(st, UNIT, None)]
    ex = explicit_elems(seq.t)
    if ex is not None:
        # an explicitly enumerated list: unroll
        states = [st]
        out = []
        for x in ex:
            nxt = []
            for s1 in states:
                m, u = I.match_pat(pat, x, s1, fr)
                for s2 in m:
                    for (s3, v, cc) in I.ev(body, s2, fr):
                        if cc in (None, "continue"):
                            nxt.append(s3)
                        elif cc == "break":
                            out.append((s3, UNIT, None))
                        else:
                            out.append((s3, v, cc))
            states = nxt
        return out + [(s1, UNIT, None) for s1 in states]

    def run_body(s, elem):
        m, u = I.match_pat(pat, elem, s, fr)
        if len(m) != 1:
            raise NotImplementedError("loop pattern")
        return I.ev(body, m[0], fr)
    r = append_loop(I, st, fr, e, seq, pat, body, roots, run_body)
    if r is None:
        r = fold_loop(I, st, fr, e, seq, pat, body, roots, run_body)
    return r


def _is_pattern_local(pat, r):
    if pat is None:
        return False
    found = [False]

    def go(p):
        if isinstance(p, dict):
            if p.get("k") == "bind" and p.get("id") == r:
                found[0] = True
            for v in p.values():
                if isinstance(v, (dict, list)):
                    go(v)
        elif isinstance(p, list):
            for x in p:
                go(x)
    go(pat)
    return found[0]


def seq_leaves(v, path=()):
    out = []
    if isinstance(v, VSeq):
        out.append((path, v))
    elif isinstance(v, VRec):
        for k, x in v.f.items():
            out += seq_leaves(x, path + (k,))
    elif isinstance(v, VTup):
        for i, x in enumerate(v.items):
            out += seq_leaves(x, path + (str(i),))
    return out


def nat_leaves(v, path=()):
    out = []
    if isinstance(v, VNat):
        out.append((path, v))
    elif isinstance(v, VRec):
        for k, x in v.f.items():
            out += nat_leaves(x, path + (k,))
    elif isinstance(v, VTup):
        for i, x in enumerate(v.items):
            out += nat_leaves(x, path + (str(i),))
    return out


def mentions(t, leaves):
    if isinstance(t, tuple):
        if t in leaves:
            return True
        return any(mentions(x, leaves) for x in t)
    if isinstance(t, Poly):
        return any(mentions(a, leaves) for a in t.atoms())
    return False


def append_loop(I, st, fr, e, seq, pat, body, roots, run_body):
    import loops
    entry = loops.resolve_roots(I, st, fr, roots, skip=lambda r: _is_pattern_local(pat, r), extra_values=[seq])
    if not entry:
        return None
    head = st.copy()
    prefix = {}
    names = loops.local_names(fr.fn) if fr.fn else {}
    fr.loop_ix += 1
    lname = (fr.fn["path"] if fr.fn else "?", "loop%d" % fr.loop_ix)
    for r, (place, v) in entry.items():
        nv = v
        for path, leafv in seq_leaves(v):
            rn = names.get(r, r) if not isinstance(r, tuple) else tuple(names.get(x, x) if not isinstance(x, tuple) else x for x in r[1:])
            P = leaf(("prefix",) + lname + (str(rn),) + path)
            if LIST_ELEM.get(leafv.t) or (isinstance(v, VRec) and v.ty in (inv.LH, inv.LOH) and path[-1:] == ("adjacency",)):
                LIST_ELEM[P] = LIST_ELEM.get(leafv.t) or "hyperedge"
                if LIST_ELEM[P] == "hyperedge":
                    for fld in ("sources", "targets"):
                        for b in head.bnd.get(("el", leafv.t, fld), ()):
                            pass
            prefix[(r, path)] = (P, leafv.t)
            # the prefix is the entry value followed by what earlier iterations appended: its
            # length is at least the entry length; its element bounds are those of the entry value
            head.add_ge(t_len(P) - t_len(leafv.t))
            if label_of(leafv.t):
                LABEL_LEAVES.add(P)
            nv = _set_path(nv, path, VSeq(P))
        I.write_place(head, place, nv)
    n_ob = len(I.obligations)
    saved = (dict(I.unmodelled), dict(I.lemma_uses), dict(I.assumptions), fr.loop_ix)

    def abort():
        del I.obligations[n_ob:]
        I.unmodelled, I.lemma_uses, I.assumptions = saved[0], saved[1], saved[2]
        fr.loop_ix = saved[3] - 1
        return None
    try:
        elem = seq_elem(I, head, seq, None)
        outs = run_body(head, elem)
    except (NotImplementedError, TypeError, KeyError, AttributeError) as ex:
        return abort()
    except Exception as ex:
        if type(ex).__name__ == "Unsupported":
            return abort()
        raise
    if len(outs) != 1 or outs[0][2] is not None:
        return abort()
    s2 = outs[0][0]
    all_prefix = {P for (P, _) in prefix.values()}
    updates = []
    for r, (place, v) in entry.items():
        endv = I.read_place(s2, place)
        for path, nv in nat_leaves(v):
            ev = loops.get_path(endv, path)
            if not (isinstance(ev, VNat) and s2.eq(ev.p, nv.p)):
                return abort()
        for path, leafv in seq_leaves(v):
            P, t0 = prefix[(r, path)]
            ev = loops.get_path(endv, path)
            if not isinstance(ev, VSeq):
                return abort()
            t = ev.t
            if t == P:
                updates.append((place, path, t0, None, P))
                continue
            parts = list(t[1:]) if t[0] == "concat" else [t]
            if parts[0] != P:
                return abort()
            updates.append((place, path, t0, parts[1:], P))
    # appended items may mention the *length* of a prefix (fresh ids: `let i = v.len(); v.push(x); i`)
    # through len(P) = len(entry) + (number of earlier iterations) * (items per iteration)
    res = s2
    per_iter = {}
    for (place, path, t0, added, P) in updates:
        k = Poly.const(0)
        for x in (added or []):
            k = k + t_len(x)
        per_iter[P] = (t0, k)
    for (place, path, t0, added, P) in updates:
        cur = I.read_place(res, place)
        if added is None:
            newt = t0
        else:
            lifted = []
            for x in added:
                y = lift_added(I, res, seq.t, x, per_iter)
                if y is None or mentions(y, all_prefix):
                    return abort()
                lifted.append(y)
            newt = mk_concat([t0] + lifted)
        I.write_place(res, place, _set_path(cur, path, VSeq(newt)))
    return [(res, UNIT, None)]


def _set_path(v, path, newv):
    if not path:
        return newv
    if isinstance(v, VRec):
        return v.with_field(path[0], _set_path(v.f[path[0]], path[1:], newv))
    if isinstance(v, VTup):
        items = list(v.items)
        items[int(path[0])] = _set_path(items[int(path[0])], path[1:], newv)
        return VTup(items)
    raise NotImplementedError("set_path")


def subst_frozen(f, mapping):
    k = f[0]
    if k == "nat":
        return ("nat", f[1].subst(mapping))
    if k == "rec":
        return ("rec", f[1], tuple((n, subst_frozen(x, mapping)) for n, x in f[2]))
    if k == "tup":
        return ("tup", tuple(subst_frozen(x, mapping) for x in f[1]))
    if k == "enum":
        return ("enum", f[1], f[2], tuple(subst_frozen(x, mapping) for x in f[3]))
    return f


def lift_added(I, st, S, x, per_iter):
    """What one iteration appended (x, over the placeholders of S), collected over all iterations."""
    if x[0] == "single":
        # identifiers read from the length of a prefix: len(P) = len(entry) + k * (iteration index)
        mapping = {}
        for P, (t0, k) in per_iter.items():
            mapping[("len", P)] = t_len(t0) + k * Poly.atom(("enumidx", S))
        fz = subst_frozen(x[1], mapping)
        return lift_map(I, st, S, thaw(fz))
    if x[0] == "fill" and st.eq(x[2], 1):
        p = as_poly(x[1])
        # fresh identifiers: value = len(prefix P) with one item appended to P per iteration
        for P, (t0, k) in per_iter.items():
            lp = Poly.atom(("len", P))
            if p == lp and st.eq(k, 1):
                return mk_arange(t_len(t0), t_len(t0) + t_len(S))
        return lift_map(I, st, S, VNat(p))
    if mentions(x, {("elem", S)}) or mentions(x, {S}) or True:
        return ("flat", S, x)


# ---------------------------------------------------------------------------------------------
# contracts of the lax user traits

def user_contract(I, callee, vals):
    import contracts_lax
    return contracts_lax.lookup(I, callee, vals)


# ---------------------------------------------------------------------------------------------
# fold idioms: exact summaries for loops that update an array in place at computed positions, accumulate a
# running scalar, or push conditionally (one symbolic iteration from an opaque accumulator state)

OLD = ("old-value",)     # stands for the element at the written position before the write


def _subst_term_atoms(x, mapping):
    """Replace atoms inside a polynomial / frozen value."""
    if isinstance(x, Poly):
        return x.subst(mapping)
    return x


def fold_loop(I, st, fr, e, seq, pat, body, roots, run_body, ind=None, skip_bounds=frozenset()):
    """ind: loop-carried naturals found (by a first pass) to advance by a constant in every iteration (manual
    counters): in the second pass they hold their exact value  start + c * (iteration index)."""
    import loops
    ind = ind or {}
    entry = loops.resolve_roots(I, st, fr, roots, skip=lambda r: _is_pattern_local(pat, r), extra_values=[seq])
    if not entry:
        return None
    head = st.copy()
    names = loops.local_names(fr.fn) if fr.fn else {}
    fr.loop_ix += 1
    lname = (fr.fn["path"] if fr.fn else "?", "loop%d" % fr.loop_ix)
    seq_mark, nat_mark = {}, {}
    assumed_bounds = {}
    for r, (place, v) in entry.items():
        nv = v
        rn = str(names.get(r, r))
        for path, leafv in seq_leaves(v):
            P = leaf(("acc",) + lname + (rn,) + path)
            seq_mark[(r, path)] = (P, leafv.t)
            head.add_ge(t_len(P) - t_len(leafv.t))
            # element bounds of the entry value are assumed for the accumulator and re-established below for
            # everything one iteration writes (inductive)
            if not label_of(leafv.t) and not LIST_ELEM.get(leafv.t):
                bs = [b for b in ubs(st, leafv.t) if not mentions(b, {leafv.t}) and ((r, path), b) not in skip_bounds]
                for b in bs:
                    head.add_bound(P, b)
                assumed_bounds[P] = bs
            if label_of(leafv.t):
                LABEL_LEAVES.add(P)
            nv = _set_path(nv, path, VSeq(P))
        for path, natv in nat_leaves(v):
            if (r, path) in ind:
                ix = Poly.atom(("enumidx", seq.t))
                head.add_ge(t_len(seq.t) - ix - 1)
                A = natv.p + ind[(r, path)] * ix
            else:
                A = Poly.atom(("accn",) + lname + (rn,) + path)
            nat_mark[(r, path)] = (A, natv.p)
            nv = _set_path(nv, path, VNat(A))
        I.write_place(head, place, nv)
    n_ob = len(I.obligations)
    saved = (dict(I.unmodelled), dict(I.lemma_uses), dict(I.assumptions), fr.loop_ix)

    def abort():
        del I.obligations[n_ob:]
        I.unmodelled, I.lemma_uses, I.assumptions = saved[0], saved[1], saved[2]
        fr.loop_ix = saved[3] - 1
        return None
    n_facts = len(head.lin.facts)
    n_unk = len(head.unk)
    try:
        elem = seq_elem(I, head, seq, None)
        n_facts = len(head.lin.facts)
        outs = run_body(head.copy(), elem)
        # `continue` ends the iteration like falling off the end of the body
        outs = [(s_, v_, None if c_ == "continue" else c_) for (s_, v_, c_) in outs]
    except (NotImplementedError, TypeError, KeyError, AttributeError):
        return abort()
    except Exception as ex:
        if type(ex).__name__ == "Unsupported":
            return abort()
        raise
    if not outs or any(c is not None for (_, _, c) in outs):
        return abort()
    all_marks = {P for (P, _) in seq_mark.values()}
    nat_atoms = {next(iter(A.atoms())) for (k_, (A, _)) in nat_mark.items() if k_ not in ind}

    def classify(s2):
        """per leaf: ('same',) | ('upd', ip, val) | ('app', [parts]) | ('inc', g)   (None = unsupported)"""
        out = {}
        for r, (place, v) in entry.items():
            endv = I.read_place(s2, place)
            for path, _ in seq_leaves(v):
                P, t0 = seq_mark[(r, path)]
                ev = loops.get_path(endv, path)
                if not isinstance(ev, VSeq):
                    return None
                t = ev.t
                if t == P:
                    out[(r, path)] = ("same",)
                elif t[0] == "upd" and t[1] == P and t[3] == ():
                    out[(r, path)] = ("upd", as_poly(t[2]), t[4])
                elif t[0] == "concat" and t[1] == P:
                    out[(r, path)] = ("app", list(t[2:]))
                else:
                    return None
            for path, _ in nat_leaves(v):
                A, a0 = nat_mark[(r, path)]
                ev = loops.get_path(endv, path)
                if not isinstance(ev, VNat):
                    return None
                g = ev.p - A
                if (r, path) in ind:
                    if g != ind[(r, path)]:
                        return None
                    out[(r, path)] = ("same",)
                elif g == Poly.const(0):
                    out[(r, path)] = ("same",)
                elif not (g.atoms() & nat_atoms) and not mentions(g, all_marks):
                    out[(r, path)] = ("inc", g)
                else:
                    return None
        return out
    cls = [classify(s2) for (s2, _, _) in outs]
    if any(c is None for c in cls):
        return abort()
    for (s2, _, _), c_ in zip(outs, cls):
        for key_, k_ in c_.items():
            if key_ not in seq_mark:
                continue
            P_ = seq_mark[key_][0]
            for b in assumed_bounds.get(P_, ()):
                held = True
                if k_[0] == "upd":
                    fv = k_[2]
                    held = fv[0] == "nat" and s2.ge(b, as_poly(fv[1]) + 1)
                elif k_[0] == "app":
                    held = all(prove_bound(s2, x_, b) for x_ in k_[1])
                if not held:
                    # this bound of the entry value is not preserved by the loop: analyse again without assuming it
                    abort()
                    return fold_loop(I, st, fr, e, seq, pat, body, roots, run_body, ind=ind,
                                     skip_bounds=skip_bounds | {(key_, b)})
    if not ind:
        # manual counters: the same constant increment on every path of the body
        found = {}
        for key in nat_mark:
            ks = [c[key] for c in cls]
            if all(k[0] == "inc" and k[1].is_const() and k[1] == ks[0][1] for k in ks):
                found[key] = ks[0][1]
        if found:
            abort()
            return fold_loop(I, st, fr, e, seq, pat, body, roots, run_body, ind=found, skip_bounds=skip_bounds)
    changing = [i for i, c in enumerate(cls) if any(k[0] != "same" for k in c.values())]
    S = seq.t
    res = st.copy()

    def finish(final):
        for key, c_ in ind.items():
            final[key] = VNat(nat_mark[key][1] + c_ * t_len(S))
        for (r, path), newv in final.items():
            place = entry[r][0]
            cur = I.read_place(res, place)
            I.write_place(res, place, _set_path(cur, path, newv))
        return [(res, UNIT, None)]

    # ---- (iii) conditional push: one pushing outcome, the others leave everything unchanged
    if len(outs) >= 2 and len(changing) == 1:
        i = changing[0]
        c = cls[i]
        if any(k[0] not in ("same", "app") for k in c.values()):
            return abort()
        s2 = outs[i][0]
        cond_facts = tuple(sorted((repr((k, p)), k, p) for (k, p) in s2.lin.facts[n_facts:]))
        cond_unk = tuple(s2.unk[n_unk:])
        if not cond_facts and not cond_unk:
            return abort()
        if not cond_facts and len(cond_unk) == 1 and cond_unk[0][1] and cond_unk[0][0][0] == "is_some":
            # `if let Some(k) = m[x] { out.push(f(k)) }`: the loop form of filter_map
            okey = cond_unk[0][0][1]
            final = {}
            for (r, path), k in c.items():
                if k[0] == "same":
                    continue
                P, t0 = seq_mark[(r, path)]
                if len(k[1]) != 1 or k[1][0][0] != "fill" or not res.eq(as_poly(k[1][0][2]), 1):
                    return abort()
                pv = as_poly(k[1][0][1])
                if mentions(pv, all_marks) or mentions(pv, nat_atoms) or not mentions(pv, {("somev", okey)}):
                    return abort()
                t = ("filtermap", S, (freeze(VNat(pv)),))
                res.add_ge(t_len(S) - t_len(t))
                final[(r, path)] = VSeq(mk_concat([t0, t]))
            return finish(final)
        cond = ("true",)
        for (_, k, p) in cond_facts:
            cond = f_and(cond, ("cmp", k, p))
        for (key, truth) in cond_unk:
            f = ("unk", key)
            cond = f_and(cond, f if truth else f_not(f))
        M = make_mask(I, res, S, cond)
        Sf = ("lfilter", S, M)
        term_facts(res, Sf)
        final = {}
        for (r, path), k in c.items():
            if k[0] == "same":
                continue
            P, t0 = seq_mark[(r, path)]
            lifted = []
            for x in k[1]:
                if mentions(x, all_marks) or mentions(x, nat_atoms):
                    return abort()
                try:
                    y = _lift_selected(I, res, S, M, x)
                except NotImplementedError:
                    y = None
                if y is None:
                    return abort()
                lifted.append(y)
            final[(r, path)] = VSeq(mk_concat([t0] + lifted))
        return finish(final)
    if len(outs) != 1:
        return abort()
    c = cls[0]
    s2 = outs[0][0]
    kinds = {k[0] for k in c.values()}
    if kinds <= {"same"} and ind:
        return finish({})
    if kinds <= {"same", "app"} and ind:
        final = {}
        for (r, path), k in c.items():
            if k[0] != "app":
                continue
            P, t0 = seq_mark[(r, path)]
            lifted = []
            for x in k[1]:
                if mentions(x, all_marks) or mentions(x, nat_atoms):
                    return abort()
                y = lift_added(I, res, S, x, {})
                if y is None or mentions(y, all_marks):
                    return abort()
                lifted.append(y)
            final[(r, path)] = VSeq(mk_concat([t0] + lifted))
        return finish(final)
    # ---- (i) indexed in-place updates
    if kinds <= {"same", "upd", "app"} and "upd" in kinds:
        final = {}
        for (r, path), k in c.items():
            if k[0] == "app":
                # a plain append next to the indexed update (e.g. the key log of a counting map)
                P, t0 = seq_mark[(r, path)]
                lifted = []
                for x in k[1]:
                    if mentions(x, all_marks) or mentions(x, nat_atoms):
                        return abort()
                    y = lift_added(I, res, S, x, {})
                    if y is None or mentions(y, all_marks):
                        return abort()
                    lifted.append(y)
                final[(r, path)] = VSeq(mk_concat([t0] + lifted))
                continue
            if k[0] != "upd":
                continue
            P, t0 = seq_mark[(r, path)]
            ip, fval = k[1], k[2]
            if mentions(ip, all_marks) or (ip.atoms() & nat_atoms):
                return abort()
            old = ("get", P, ip)
            if fval[0] == "nat":
                rec = _prefix_recurrence(I, res, S, P, t0, ip, fval[1], all_marks, nat_atoms)
                if rec is not None:
                    final[(r, path)] = VSeq(rec)
                    continue
                val = deep_subst(fval[1], {old: Poly.atom(OLD)})
                if mentions(val, all_marks):
                    return abort()
                fval = ("nat", val)
            elif mentions(fval, all_marks):
                return abort()
            t = fold_update_term(I, res, S, t0, ip, fval)
            if t is None:
                return abort()
            final[(r, path)] = VSeq(t)
        return finish(final)
    # ---- (ii) running scalar(s) with appends of the running value
    if kinds <= {"same", "inc", "app"} and "inc" in kinds:
        final = {}
        incs = {}
        for (r, path), k in c.items():
            if k[0] == "inc":
                A, a0 = nat_mark[(r, path)]
                G = lift_map(I, res, S, VNat(k[1]))
                incs[next(iter(A.atoms()))] = (a0, G, k[1])
                final[(r, path)] = VNat(a0 + t_sum(G))
        for (r, path), k in c.items():
            if k[0] != "app":
                continue
            P, t0 = seq_mark[(r, path)]
            lifted = []
            for x in k[1]:
                if mentions(x, all_marks):
                    return abort()
                y = None
                if x[0] == "fill" and res.eq(x[2], 1):
                    p = as_poly(x[1])
                    used = p.atoms() & nat_atoms
                    if len(used) == 1:
                        a = next(iter(used))
                        a0, G, g = incs.get(a, (None, None, None))
                        rest = p - Poly.atom(a)
                        if G is not None and not rest.atoms():
                            # value of the accumulator BEFORE this iteration's increment (rest == 0) or after (rest == g)
                            pre = ("slice", ("cumsum", G), Poly.const(0), t_len(G))
                            y = mk_shift(a0 + rest, pre)
                        elif G is not None and rest == g:
                            y = mk_shift(a0, ("slice", ("cumsum", G), Poly.const(1), t_len(G) + 1))
                    elif not used:
                        y = lift_added(I, res, S, x, {})
                if y is None:
                    return abort()
                lifted.append(y)
            final[(r, path)] = VSeq(mk_concat([t0] + lifted))
        return finish(final)
    return abort()


def subst_formula(f, mapping):
    """Substitute atoms (by polynomials) inside a formula / key made of nested tuples and polynomials."""
    if isinstance(f, Poly):
        return f.subst(mapping)
    if isinstance(f, tuple):
        if f in mapping:
            a_ = mapping[f].atoms()
            if len(a_) == 1 and mapping[f] == Poly.atom(next(iter(a_))):
                return next(iter(a_))
        return tuple(subst_formula(x, mapping) for x in f)
    return f


def _formula_placeholders(f, out):
    if isinstance(f, Poly):
        for a in f.atoms():
            _formula_placeholders(a, out)
    elif isinstance(f, tuple):
        if _is_ph(f):
            out.add(f)
            return
        if f and f[0] in BINDERS:
            return
        for x in f:
            _formula_placeholders(x, out)


def make_mask(I, st, S, cond):
    """mask(S, cond).  A condition that depends on the POSITION only (not on the elements) selects the same positions
    of every list of the same length: such masks are shared (one representative per condition and length)."""
    phs = set()
    _formula_placeholders(cond, phs)
    if phs and all(p[0] == "enumidx" for p in phs) and all(st.eq(t_len(p[1]), t_len(S)) for p in phs):
        pos = ("enumidx", ("positions",))
        canon = subst_formula(cond, {p: Poly.atom(pos) for p in phs})
        reg = templates(I).setdefault(("posmasks",), [])
        for (n2, c2, M2) in reg:
            if c2 == canon and st.eq(n2, t_len(S)):
                return M2
        M = ("mask", S, cond)
        reg.append((t_len(S), canon, M))
        return M
    return ("mask", S, cond)


def _lift_selected(I, st, S, M, x):
    """x: what one (selected) iteration appended, over the placeholders of S; the whole appended sequence over the
    iterations selected by mask M."""
    if x[0] == "single":
        v = rename_selected(st, thaw(x[1]), M)
        return lift_map(I, st, ("lfilter", S, M), v)
    if x[0] == "fill" and st.eq(x[2], 1):
        p = rename_selected(st, VNat(as_poly(x[1])), M).p
        mapping = {}
        for at in p.atoms():
            if isinstance(at, tuple) and at and at[0] == "enumidx":
                # position of a selected element = element of the selected sub-sequence of 0..len
                mapping[at] = Poly.atom(("elem", ("sel", mk_arange(0, t_len(at[1])), M)))
        p = p.subst(mapping) if mapping else p
        return lift_map(I, st, ("lfilter", S, M), VNat(p))
    return None


def _bound_under(a, t0):
    """placeholder atoms that mention the element / position of t0 inside them (e.g. q[elem(t0)])"""
    return mentions(a, {("elem", t0), ("enumidx", t0)})


def deep_subst(x, mapping):
    """Substitute atoms by polynomials, also where they occur inside other atoms (mapping: atom -> Poly)."""
    if isinstance(x, Poly):
        m2 = {}
        for a in x.atoms():
            if a in mapping:
                m2[a] = mapping[a]
            else:
                na = deep_subst(a, mapping)
                if na != a:
                    m2[a] = Poly.atom(na)
        return x.subst(m2) if m2 else x
    if isinstance(x, tuple):
        return tuple(deep_subst(y, mapping) for y in x)
    return x


def _prefix_recurrence(I, st, S, P, t0, ip, val, all_marks, nat_atoms):
    """`v[i + 1] = v[i] + g(x_i)` for i = 0, 1, .. over the elements of S, v of length |S| + 1: the prefix sums of g
    shifted by v[0] (the recurrence form of a cumulative sum)."""
    ix = None
    for a in ip.atoms():
        if isinstance(a, tuple) and a and a[0] == "enumidx":
            ix = a
    if ix is None or ip != Poly.atom(ix) + 1:
        return None
    base = ix[1]
    if not (base == S or (S[0] == "enum" and S[1] == base) or (S[0] in ("arange",) and False)):
        return None
    prev = Poly.atom(("get", P, Poly.atom(ix)))
    g = val - prev
    if mentions(g, all_marks) or (g.atoms() & nat_atoms):
        return None
    if not st.eq(t_len(t0), t_len(base) + 1):
        return None
    G = lift_map(I, st, S, VNat(g))
    if G is None:
        return None
    import prims
    v0 = prims.get_value(st, t0, Poly.const(0))
    return mk_shift(v0, ("cumsum", G))


def fold_update_term(I, st, S, t0, ip, fval):
    """The array t0 after `t0[ip] = val` for every element of S in order (ip, val over the placeholders of S; val may
    mention OLD, the element being overwritten).  Contract terms where the shape is one of the array primitives."""
    K = lift_map(I, st, S, VNat(ip))
    if fval[0] == "nat":
        val = fval[1]
        old = Poly.atom(OLD)
        if mentions(val, {OLD}) and K[0] == "arange" and st.eq(K[1], 0) and st.eq(K[2], t_len(t0)):
            # every position is overwritten exactly once, in order, by a function of its old element (and of the
            # position): an element-wise map of the old array
            el = Poly.atom(("elem", t0))
            body = deep_subst(val, {OLD: el})
            ixs = [a for a in _ph_atoms(body) if a[0] == "enumidx"]
            if all(a[1] == S or a[1] == flat_enum_base(S) for a in ixs):
                body = deep_subst(body, {a: Poly.atom(("enumidx", t0)) for a in ixs})
                if not [a for a in _ph_atoms(body) if a not in (("elem", t0), ("enumidx", t0)) and not _bound_under(a, t0)]:
                    return lift_map(I, st, ("enum", t0) if ixs else t0, VNat(body))
            return None
        if not mentions(val, {OLD}):
            V = lift_map(I, st, S, VNat(val))
            if V[0] == "fill":
                return ("sac", t0, K, as_poly(V[1]))
            return ("sa", t0, K, V)
        d = val - old
        if not (d.atoms() & {OLD}):
            if d == Poly.const(1) and t0[0] == "fill" and as_poly(t0[1]) == Poly.const(0):
                return ("bincount", K, as_poly(t0[2]))
            neg = Poly.const(0) - d
            if neg.t and all(c > 0 for c in neg.t.values()):
                return ("ssa", t0, K, lift_map(I, st, S, VNat(neg)))
            return ("saa", t0, K, lift_map(I, st, S, VNat(d)))
        return None
    v = thaw(fval)
    V = lift_map(I, st, S, v)
    if V[0] == "fill":
        return ("sac", t0, K, as_poly(V[1]))
    return ("sa", t0, K, V)


def _register_maps():
    import mapmodel as mm
    for ty, path in ((mm.HASH, "std::collections::HashMap"), (mm.BTREE, "std::collections::BTreeMap")):
        for sig in ("::<K, V>::new", "::<K, V, S, A>::new", "::<K, V, A>::new", "::<K, V>::with_capacity"):
            TABLE[path + sig] = mm.h_new(ty)
        for sig in ("::<K, V, S, A>::", "::<K, V, A>::", "::<K, V>::"):
            TABLE[path + sig + "entry"] = mm.h_entry
            TABLE[path + sig + "keys"] = mm.h_keys
            TABLE[path + sig + "into_keys"] = mm.h_keys
            TABLE[path + sig + "values"] = mm.h_values
            TABLE[path + sig + "into_values"] = mm.h_values
            TABLE[path + sig + "iter"] = mm.h_iter
            TABLE[path + sig + "len"] = mm.h_len
    for ent in ("std::collections::hash_map::Entry::<'a, K, V, A>::", "std::collections::hash_map::Entry::<'a, K, V>::",
                "std::collections::btree_map::Entry::<'a, K, V, A>::", "std::collections::btree_map::Entry::<'a, K, V>::"):
        TABLE[ent + "or_insert"] = mm.h_or_insert
        TABLE[ent + "or_default"] = mm.h_or_default


_register_maps()
