"""Vec / slice / iterator transfer functions (std), template lists for crate iterators, and the
user contracts of the lax Functor / Optic traits."""
from poly import Poly, as_poly, show_poly
from values import *
import inv


def deref(I, st, v):
    while isinstance(v, VMutRef):
        v = I.read_place(st, v.place)
    return v


# ---------------------------------------------------------------------------------------------
# Template lists: sequences of records described by one arbitrary element

def templates(I):
    if not hasattr(I, "_templates"):
        I._templates = {}
    return I._templates


def crate_iterator_next(I, v):
    if not isinstance(v, VRec):
        return None
    for p, f in I.facts.fns.items():
        if f["name"] == "next" and f.get("impl_trait") == "std::iter::Iterator":
            s = f.get("impl_self", "").split("<")[0]
            if s == v.ty:
                return f
    return None


def as_list(I, st, fr, e, v):
    """Convert an iterable abstract value to a VSeq."""
    v = deref(I, st, v)
    if isinstance(v, VSeq):
        return v
    nxt = crate_iterator_next(I, v)
    if nxt is not None:
        return list_of_iterator(I, st, fr, e, v, nxt)
    if isinstance(v, VRec) and v.ty == inv.IC:
        # IntoIterator for IndexedCoproduct is a crate function
        for p, f in I.facts.fns.items():
            if f["name"] == "into_iter" and "IntoIterator for indexed_coproduct" in p:
                want = "FiniteFunction" if isinstance(v.f["values"], VRec) and v.f["values"].ty == inv.FF else "SemifiniteFunction"
                if want in p.split(" for ")[1]:
                    outs = I.call_fn(f, [v], st, fr, e)
                    s2, it = I.single(outs, e)
                    return as_list(I, s2, fr, e, it)
    if isinstance(v, VRange):
        return VSeq(mk_arange(v.lo.p if v.lo else 0, v.hi.p + (1 if v.incl else 0)))
    if isinstance(v, VTop):
        return VSeq(leaf(("top-iter", v.why)))
    if isinstance(v, VEnum) and v.variant in ("Some", "None"):
        return VSeq(EMPTY if v.variant == "None" else ("single", v.payload[0]))
    raise NotImplementedError("as_list of " + repr(v)[:80])


def list_of_iterator(I, st, fr, e, it, nxt):
    """Abstract a crate iterator record by running `next` once from an arbitrary position."""
    key = ("iter", it.ty, repr(it))
    term = ("list", key)
    tp = templates(I)
    remaining = None
    if "index" in it.f and "pointers" in it.f:
        ptr = it.f["pointers"].t
        remaining = t_len(ptr) - 1 - it.f["index"].p
    if term not in tp:
        j = Poly.atom(("iterpos", key))
        s = st.copy()
        it2 = it
        facts = []
        if "index" in it.f:
            it2 = it.with_field("index", VNat(j))
            s.add_ge(j - it.f["index"].p)
            facts.append(("ge", j - it.f["index"].p))
        root = (fr.id, ("itertmp", id(e)))
        s.env[root] = it2
        outs = I.call_fn(nxt, [VMutRef((root, ()))], s, fr, e)
        elems = []
        for (s2, v, c) in outs:
            if isinstance(v, VEnum) and v.variant == "Some":
                elems.append((s2, v.payload[0]))
        if len(elems) == 0:
            return VSeq(EMPTY)
        if len(elems) != 1:
            raise NotImplementedError(f"iterator next: {len(elems)} Some-paths; outs={[(repr(v)[:200], c) for (_, v, c) in outs]}")
        s2, elem = elems[0]
        # facts established on the Some path (about the position atom) are part of the template
        new_facts = s2.lin.facts[len(st.lin.facts):]
        tp[term] = {"elem": elem, "facts": list(new_facts), "bnd": {k: v for k, v in s2.bnd.items() if k not in st.bnd}}
    if remaining is not None:
        st.add_eq(t_len(term) - remaining)
    return VSeq(term)


def template_of(I, term):
    return templates(I).get(term)


def seq_elem(I, st, v, ip):
    """An arbitrary / indexed element of a sequence value."""
    t = v.t
    tpl = template_of(I, t)
    if tpl is not None:
        for (k, p) in tpl["facts"]:
            st.lin.add(k, p)
        for term, bs in tpl["bnd"].items():
            for b in bs:
                st.add_bound(term, b)
        return tpl["elem"]
    return elem_of_term(I, st, t, ip)


def elem_of_term(I, st, t, ip):
    """Scalar element abstraction: a natural number atom bounded by the sequence's bounds."""
    if ip is None:
        a = Poly.atom(("elem", t))
    else:
        a = Poly.atom(("get", t, ip))
    for b in ubs(st, t):
        st.add_ge(b - a - 1)
    return VNat(a)


def seq_update(I, st, v, ip, rest, val):
    v = deref(I, st, v)
    if isinstance(v, VSeq):
        return VSeq(("upd", v.t, ip if ip is not None else Poly.const(0), repr(rest), repr(val)[:40]))
    return VTop("update")


def index_expr(I, st, fr, e, base, ix):
    base = deref(I, st, base)
    if isinstance(base, VSeq):
        if isinstance(ix, VNat):
            I.pre_ge(st, fr, e, "index", t_len(base.t), ix.p + 1, f"{show_poly(ix.p)} < len({show_term(base.t)})")
            tyd = I.facts.ty(e["ty"])
            if tyd["k"] in ("uint",) or tyd["s"].endswith("NodeId") or tyd["s"].endswith("::I"):
                return [(st, elem_of_term(I, st, base.t, ix.p), None)]
            tpl = template_of(I, base.t)
            if tpl is not None:
                return [(st, seq_elem(I, st, base, ix.p), None)]
            return [(st, VTop("element"), None)]
        if isinstance(ix, (VRange, VRec)):
            import prims
            lo, hi = prims._range(I, st, base.t, ix)
            n = t_len(base.t)
            I.pre_ge(st, fr, e, "slice", hi, lo, f"{show_poly(lo)} <= {show_poly(hi)}")
            I.pre_ge(st, fr, e, "slice", n, hi, f"{show_poly(hi)} <= len({show_term(base.t)})")
            if not lo.t and st.eq(hi, n):
                return [(st, base, None)]
            return [(st, VSeq(prims.mk_slice(st, base.t, lo, hi)), None)]
    if isinstance(base, VTop):
        return [(st, VTop("index"), None)]
    raise NotImplementedError("index of " + repr(base)[:60])


def list_from_values(I, st, vals):
    parts = []
    for v in vals:
        parts.append(("single", as_key(v)))
    return VSeq(mk_concat(parts))


def as_key(v):
    if isinstance(v, VNat):
        return v.p
    return repr(v)


def iter_elements(I, st, fr, e, itv):
    """States/element values for one arbitrary iteration over itv."""
    seq = as_list(I, st, fr, e, itv)
    return [(st, seq_elem(I, st, seq, None))]


def summarise_for(I, st, fr, e, itv, pat, body, roots):
    return None


# ---------------------------------------------------------------------------------------------
# std handlers

def h_collect(I, st, fr, e, c, a):
    return [(st, as_list(I, st, fr, e, a[0]), None)]


def h_into_iter(I, st, fr, e, c, a):
    v = deref(I, st, a[0])
    if isinstance(v, VRec) and v.ty == inv.IC:
        return [(st, as_list(I, st, fr, e, v), None)]
    return [(st, v, None)]


def h_iter_map(I, st, fr, e, c, a):
    seq = as_list(I, st, fr, e, a[0])
    f = a[1]
    if seq.t == EMPTY:
        return [(st, seq, None)]
    tpl = template_of(I, seq.t)
    s = st.copy()
    elem = seq_elem(I, s, seq, None)
    outs = I.apply_value(f, [elem], s, fr, e)
    normal = [(s2, v) for (s2, v, cc) in outs if cc is None]
    if len(normal) != 1:
        raise NotImplementedError("map closure with %d outcomes" % len(normal))
    s2, r = normal[0]
    if isinstance(r, VNat):
        # element-wise scalar map
        base = Poly.atom(("elem", seq.t))
        d = r.p - base
        if base not in [Poly.atom(x) for x in d.atoms()] and not any(("elem", seq.t) == x for x in d.atoms()):
            return [(st, VSeq(mk_shift(d, seq.t)), None)]
        if not r.p.atoms() & {("elem", seq.t)}:
            return [(st, VSeq(("fill", r.p, t_len(seq.t))), None)]
        term = ("emap", seq.t, r.p)
        return [(st, VSeq(term), None)]
    key = ("map", seq.t, id(f.node) if isinstance(f, VClosure) else repr(f))
    term = ("list", key)
    new_facts = s2.lin.facts[len(st.lin.facts):]
    templates(I)[term] = {"elem": r, "facts": list(new_facts),
                          "bnd": {k: v for k, v in s2.bnd.items() if k not in st.bnd}}
    st.add_eq(t_len(term) - t_len(seq.t))
    return [(st, VSeq(term), None)]


def h_vec_len(I, st, fr, e, c, a):
    v = deref(I, st, a[0])
    if isinstance(v, VSeq):
        return [(st, VNat(t_len(v.t)), None)]
    return [(st, VTop("len"), None)]


def h_is_empty(I, st, fr, e, c, a):
    v = deref(I, st, a[0])
    if isinstance(v, VSeq):
        return [(st, VBool(("cmp", "eq", t_len(v.t))), None)]
    return [(st, VBool(("unk", ("is_empty", e["sp"]))), None)]


def h_seq_identity(I, st, fr, e, c, a):
    return [(st, as_list(I, st, fr, e, a[0]), None)]


TABLE = {
    "std::iter::Iterator::collect": h_collect,
    "std::iter::IntoIterator::into_iter": h_into_iter,
    "std::iter::Iterator::map": h_iter_map,
    "std::vec::Vec::<T, A>::len": h_vec_len,
    "core::slice::<impl [T]>::len": h_vec_len,
    "std::vec::Vec::<T, A>::is_empty": h_is_empty,
    "core::slice::<impl [T]>::is_empty": h_is_empty,
    "core::slice::<impl [T]>::iter": h_seq_identity,
    "std::iter::Iterator::cloned": h_seq_identity,
    "std::iter::Iterator::copied": h_seq_identity,
    "std::slice::<impl [T]>::to_vec": h_seq_identity,
}


def user_contract(I, callee, vals):
    return None
