"""REFCELL (C19): no RefMut guard of the shared builder state is live across another borrow of it.
 (a) a method call whose receiver is `<cell>.borrow_mut()` must not borrow again in its other arguments
     (the receiver guard is created first and is alive while the arguments are evaluated);
 (b) a guard bound by `let g = <cell>.borrow_mut()` is alive to the end of its block: no later statement
     of that block may borrow (directly, or by calling a crate function that borrows).
 Assignments `<cell>.borrow_mut().field = value` are fine: the value is evaluated before the place."""
from ir import walk

BORROW = ("std::cell::RefCell::<T>::borrow_mut", "std::cell::RefCell::<T>::borrow")


def direct_borrow(e):
    found = []

    def v(n):
        if n["k"] == "call" and n.get("callee") and n["callee"]["def"] in BORROW:
            found.append(n)
    walk(e, v)
    return found


def borrowing_fns(facts):
    """crate functions that (transitively) borrow a RefCell"""
    direct = set()
    calls = {}
    for p, fn in facts.fns.items():
        if not fn["sp"].startswith("src/lax/var/"):
            continue
        cs = set()

        def v(n):
            if n["k"] in ("call", "binary", "unary") and n.get("callee"):
                c = n["callee"]
                cs.add(c.get("res") or c["def"])
                if c["def"] in BORROW:
                    direct.add(p)
        walk(fn["body"], v)
        calls[p] = cs
    changed = True
    while changed:
        changed = False
        for p, cs in calls.items():
            if p not in direct and cs & direct:
                direct.add(p)
                changed = True
    return direct


def borrows(e, bfns):
    out = []

    def v(n):
        if n["k"] in ("call", "binary", "unary") and n.get("callee"):
            c = n["callee"]
            t = c.get("res") or c["def"]
            if c["def"] in BORROW or t in bfns:
                out.append((t, n["sp"]))
    walk(e, v)
    return out


def run(facts, serde_facts, tier):
    bfns = borrowing_fns(facts)
    inst, viol = [], []
    for p, fn in sorted(facts.fns.items()):
        if not fn["sp"].startswith("src/lax/var/"):
            continue

        def v(n):
            # (a) receiver guard alive across the other arguments
            if n["k"] == "call" and n.get("args"):
                recv = n["args"][0]
                if recv["k"] == "call" and recv.get("callee") and recv["callee"]["def"] in BORROW:
                    rest = []
                    for a in n["args"][1:]:
                        rest += borrows(a, bfns)
                    ok = not rest
                    inst.append({"name": f"{p}: receiver guard at {n['sp']}", "sp": n["sp"], "props": ["C19"],
                                 "verdict": "holds" if ok else "violated"})
                    if not ok:
                        viol.append({"key": f"REFCELL|{p}|receiver|{rest[0][0]}", "fn": p, "sp": n["sp"], "props": ["C19"],
                                     "msg": f"{p}: a RefMut receiver guard is alive while an argument borrows the cell again ({rest[0][0]})"})
            # (b) let-bound guards
            if n["k"] in ("block", "loop") and "stmts" in n:
                for i, s in enumerate(n["stmts"]):
                    if s["k"] == "let" and s.get("init") is not None:
                        init = s["init"]
                        if init["k"] == "call" and init.get("callee") and init["callee"]["def"] in BORROW:
                            later = []
                            for s2 in n["stmts"][i + 1:]:
                                e2 = s2.get("e") or s2.get("init")
                                if e2 is not None:
                                    later += borrows(e2, bfns)
                            if n.get("tail") is not None:
                                later += borrows(n["tail"], bfns)
                            ok = not later
                            inst.append({"name": f"{p}: let-bound guard at {s['sp']}", "sp": s["sp"], "props": ["C19"],
                                         "verdict": "holds" if ok else "violated"})
                            if not ok:
                                viol.append({"key": f"REFCELL|{p}|let|{later[0][0]}", "fn": p, "sp": s["sp"], "props": ["C19"],
                                             "msg": f"{p}: a let-bound RefMut guard is alive while the cell is borrowed again ({later[0][0]})"})
        walk(fn["body"], v)
    return {"statement": __doc__, "instances": inst, "violations": viol, "floors": {"C19": 4},
            "borrowing_functions": sorted(bfns)}
