import os
import shutil
import subprocess
import tempfile

VERIF = os.path.dirname(os.path.dirname(os.path.dirname(os.path.abspath(__file__))))


def run_witness(name, cargo_args, toolchain=None):
    """Copies witness/<name> to a scratch directory with the path dependency pointing at the repository
    under analysis, runs cargo there (offline, scratch target dir) and returns (returncode, output)."""
    repo = os.environ.get("OHSA_REPO", "/repo")
    src = os.path.join(VERIF, "witness", name)
    d = tempfile.mkdtemp(prefix="ohg-wit-")
    try:
        shutil.copytree(src, os.path.join(d, "w"), ignore=shutil.ignore_patterns("target", "Cargo.lock"))
        w = os.path.join(d, "w")
        ct = open(os.path.join(w, "Cargo.toml")).read().replace('path = "/repo"', f'path = "{repo}"')
        open(os.path.join(w, "Cargo.toml"), "w").write(ct)
        lock = os.path.join(repo, "Cargo.lock")
        if os.path.exists(lock):
            shutil.copy(lock, os.path.join(w, "Cargo.lock"))
        env = dict(os.environ, CARGO_NET_OFFLINE="true", CARGO_TARGET_DIR=os.path.join(d, "target"))
        cmd = ["cargo"] + ([toolchain] if toolchain else []) + cargo_args + ["--offline"]
        r = subprocess.run(cmd, cwd=w, env=env, capture_output=True, text=True, timeout=900)
        return r.returncode, (r.stdout + r.stderr)
    finally:
        shutil.rmtree(d, ignore_errors=True)
