"""DELETE (C11): structural rules for the deletion routines.
 GUARD  every out-of-range check (`assert!(id < count)`) is evaluated before the first write to `*self`
 PAIR   delete_edges filters `edges` and `adjacency` together: both are pushed in the same block, and
        both fields are reassigned from those locals
 COVER  delete_nodes_witness rebuilds the pending unifications from the old pairs through the renumber
        map and assigns them back (the per-edge lists and the interfaces are decided by shapecheck specs);
        the map that is returned is the map that was used for renumbering"""
from ir import walk
from .common import place_str


def first_self_write(stmts):
    """index of the first top-level statement that writes through `self`"""
    for i, s in enumerate(stmts):
        e = s.get("e") or s.get("init")
        if e is None:
            continue
        found = [False]

        def v(n):
            if n["k"] in ("assign", "assign_op"):
                ps = place_str(n["args"][0])
                if ps and ps.startswith("self"):
                    found[0] = True
            if "borrow_mut" in (n.get("adj") or []):
                ps = place_str(n)
                if ps and ps.startswith("self"):
                    found[0] = True
            if n["k"] == "ref" and n.get("mut"):
                ps = place_str(n["e"])
                if ps and ps.startswith("self"):
                    found[0] = True
        walk(e, v)
        if found[0]:
            return i
    return len(stmts)


def assert_stmts(stmts, facts=None, depth=0):
    out = []
    for i, s in enumerate(stmts):
        e = s.get("e") or s.get("init")
        if e is None:
            continue
        n = [0]

        def v(x):
            m = x.get("mac") or []
            if any(t in ("assert", "assert_eq", "assert_ne", "panic", "unreachable") for t in m):
                # the check in any of its forms: `assert!(c, ..)` or `if !c { panic!(..) }`
                n[0] += 1
            # a private helper of the crate that performs the check counts as the check (two levels)
            if facts is not None and depth < 2 and x.get("k") == "call" and x.get("callee"):
                c = x["callee"]
                fn = facts.fns.get(c.get("res") or c.get("def"))
                if fn is not None and fn.get("body") and fn["body"].get("stmts") is not None:
                    if assert_stmts(fn["body"]["stmts"], facts, depth + 1) or _tail_asserts(fn["body"], facts, depth + 1):
                        n[0] += 1
        walk(e, v)
        if n[0]:
            out.append((i, n[0]))
    return out


def _tail_asserts(body, facts, depth):
    t = body.get("tail")
    return bool(t) and bool(assert_stmts([{"e": t}], facts, depth))


def pushes(e):
    """(receiver local name, block id) for each Vec::push in e"""
    out = []

    def v(n, blk=[None]):
        pass
    stack = []

    def rec(n, blk):
        if isinstance(n, list):
            for x in n:
                rec(x, blk)
            return
        if not isinstance(n, dict):
            return
        if n.get("k") in ("block", "loop") and "stmts" in n:
            blk = id(n)
        if n.get("k") == "call" and n.get("callee") and n["callee"]["def"].endswith("Vec::<T, A>::push"):
            out.append((place_str(n["args"][0]), blk))
        for k, x in n.items():
            if k in ("callee", "res", "pat", "params"):
                continue
            if isinstance(x, (dict, list)):
                rec(x, blk)
    rec(e, None)
    return out


def reads(e):
    out = set()

    def v(n):
        ps = place_str(n) if n["k"] in ("field", "path", "index") else None
        if ps:
            out.add(ps)
    walk(e, v)
    return out


def run(facts, serde_facts, tier):
    inst, viol, und = [], [], []

    def add(name, fn, ok, msg, recognised=True):
        """recognised=False: the routine is not written in the idiom this structural rule reads (nothing decided)."""
        if not recognised:
            inst.append({"name": name, "sp": fn["sp"], "props": ["C11"], "verdict": "idiom not recognised"})
            und.append({"key": f"DELETE|{name}", "fn": fn["path"], "sp": fn["sp"], "props": ["C11"], "msg": msg})
            return
        inst.append({"name": name, "sp": fn["sp"], "props": ["C11"], "verdict": "holds" if ok else "violated"})
        if not ok:
            viol.append({"key": f"DELETE|{name}", "fn": fn["path"], "sp": fn["sp"], "props": ["C11"], "msg": msg})
    de = facts.fns.get("lax::hypergraph::Hypergraph::<O, A>::delete_edges")
    dn = facts.fns.get("lax::hypergraph::Hypergraph::<O, A>::delete_nodes_witness")
    if de is None or dn is None:
        return {"error": "deletion routines not found"}
    for nm, fn in (("delete_edges", de), ("delete_nodes_witness", dn)):
        stmts = fn["body"]["stmts"]
        fw = first_self_write(stmts)
        asr = assert_stmts(stmts, facts)
        bounds = [i for (i, n) in asr]
        ok = bool(bounds) and all(i < fw for i in bounds)
        add(f"GUARD {nm}: identifiers are range-checked before any write to *self", fn, ok,
            f"{nm}: an out-of-range check comes after a write to *self (or no check is visible in the body): checks at "
            f"statements {bounds}, first write at statement {fw}", recognised=bool(bounds))
    # PAIR (delete_edges keeps `edges` and `adjacency` in step) is decided semantically: both fields are the
    # sub-lists selected by ONE mask (spec lax_delete_edges over the exact loop summary), whatever the loop style
    # COVER (pending unifications) + returned map
    assigned = {}
    assign_nodes = {}

    def v2(n):
        if n["k"] == "assign":
            assigned[place_str(n["args"][0])] = n["args"][1]
    walk(dn["body"], v2)
    q = assigned.get("self.quotient")
    ok = False
    recognised = False
    msg = "delete_nodes_witness: self.quotient is not reassigned from two filtered lists (idiom not recognised)"
    if q is not None and q["k"] == "tuple" and len(q["args"]) == 2:
        names = [place_str(x) for x in q["args"]]
        ps = pushes(dn["body"])
        b0 = [b for (r, b) in ps if r == names[0]]
        b1 = [b for (r, b) in ps if r == names[1]]
        recognised = bool(b0) and bool(b1)
        ok = bool(b0) and sorted(b0) == sorted(b1)
        msg = "delete_nodes_witness: the two unification lists are not filtered jointly"
        # the loop that fills them reads the old pairs and the renumber map
        rd = reads(dn["body"])
        if not ({"self.quotient.0", "self.quotient.1"} <= rd):
            ok = False
            msg = "delete_nodes_witness: the new unification lists are not built from the old ones"
    if recognised:
        add("COVER delete_nodes_witness: pending unifications are filtered jointly and renumbered", dn, ok, msg)
    else:
        # another idiom (pairs collected and unzipped, iterator chains, ...): that both columns keep or drop a pair
        # together is decided semantically (spec lax_delete_nodes_witness: the columns stay position-aligned)
        inst.append({"name": "COVER delete_nodes_witness: pending unifications (decided by the column-alignment spec)",
                     "sp": dn["sp"], "props": ["C11"], "verdict": "idiom not recognised; decided semantically"})
    # returned map = map used
    tail = dn["body"].get("tail")
    ret = place_str(tail) if tail is not None else None
    idx_names = set()

    def v3(n):
        if n["k"] == "index":
            b = place_str(n["args"][0])
            if b:
                idx_names.add(b)
    walk(dn["body"], v3)
    ok = ret is not None and ret in idx_names
    add("COVER delete_nodes_witness: the reported map is the map used for renumbering", dn, ok,
        f"delete_nodes_witness returns `{ret}` but renumbers through {sorted(idx_names)}",
        recognised=ret is not None and bool(idx_names))
    return {"statement": __doc__, "instances": inst, "violations": viol, "undecided": und, "floors": {"C11": 4}}
