"""FORGET / SELFCMP (C19): in a predicate closure passed to Iterator::all/any that compares its parameter
with a reference expression, the reference must not be (able to be) the parameter itself — comparing an
element with itself is vacuous.  Instance: lax::var::forget::all_elements_equal."""
from ir import walk


def mentions_local(e, lid):
    found = [False]

    def v(n):
        if n["k"] == "path" and n["res"]["k"] == "local" and n["res"]["id"] == lid:
            found[0] = True
    walk(e, v)
    return found[0]


def run(facts, serde_facts, tier):
    inst, viol = [], []
    for p, fn in sorted(facts.fns.items()):
        if not fn["sp"].startswith("src/lax/var/forget.rs"):
            continue

        def v(n):
            if n["k"] == "call" and n.get("callee") and n["callee"]["def"] in ("std::iter::Iterator::all", "std::iter::Iterator::any"):
                clo = n["args"][1]
                if clo["k"] != "closure" or not clo["params"]:
                    return
                pat = clo["params"][0]
                while pat["k"] == "ref":
                    pat = pat["pat"]
                if pat["k"] != "bind":
                    return
                lid = pat["id"]
                cmps = []

                def w(m):
                    if m["k"] == "binary" and m["op"] in ("==", "!="):
                        cmps.append(m)
                walk(clo["body"], w)
                for cmp_ in cmps:
                    sides = [mentions_local(a, lid) for a in cmp_["args"]]
                    ok = not (sides[0] and sides[1])
                    inst.append({"name": f"{p}: comparison at {cmp_['sp']}", "sp": cmp_["sp"], "props": ["C19"],
                                 "verdict": "holds" if ok else "violated"})
                    if not ok:
                        viol.append({"key": f"SELFCMP|{p}", "fn": p, "sp": cmp_["sp"], "props": ["C19"],
                                     "msg": f"{p}: the element under test occurs on both sides of the comparison "
                                            f"(it can be compared with itself: vacuous)"})
        walk(fn["body"], v)
    return {"statement": __doc__, "instances": inst, "violations": viol, "floors": {"C19": 1}}
