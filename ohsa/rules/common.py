from ir import walk


def fn_by_suffix(facts, suffix):
    return [f for p, f in facts.fns.items() if p.endswith(suffix)]


def calls_in(e):
    out = []

    def v(n):
        if n["k"] in ("call", "binary", "unary", "index", "assign_op") and n.get("callee"):
            out.append(n)
    walk(e, v)
    return out


def local_of(e):
    """local id if e is (a borrow/deref of) a plain local path"""
    while e["k"] in ("ref",) or (e["k"] == "unary" and e["op"] == "*"):
        e = e["e"] if e["k"] == "ref" else e["args"][0]
    if e["k"] == "path" and e["res"]["k"] == "local":
        return e["res"]["id"]
    return None


def param_ids(fn):
    ids = []
    for p in fn["params"]:
        pat = p["pat"]
        while pat["k"] == "ref":
            pat = pat["pat"]
        ids.append(pat.get("id") if pat["k"] == "bind" else None)
    return ids


def place_str(e):
    """Textual access path of a place expression rooted at a local (self.adjacency, edge.sources, ...)."""
    k = e["k"]
    if k == "path" and e["res"]["k"] == "local":
        return e["res"]["name"]
    if k == "field":
        b = place_str(e["e"])
        return None if b is None else b + "." + e["name"]
    if k == "ref":
        return place_str(e["e"])
    if k == "unary" and e["op"] == "*":
        return place_str(e["args"][0])
    if k == "index":
        b = place_str(e["args"][0])
        return None if b is None else b + "[]"
    return None
