"""DELEG: a deprecated alias is a single call to the renamed function with the same arguments."""
from .common import param_ids, local_of

PROPS = {"delete_edge": ["C11"], "quotient_witness": ["C09"], "to_open_hypergraph": ["C10"], "define_map_arrow": ["C10"]}


def run(facts, serde_facts, tier):
    inst, viol = [], []
    for p, fn in sorted(facts.fns.items()):
        if not fn.get("deprecated"):
            continue
        body = fn["body"]
        e = body
        while e["k"] == "block" and not [s for s in e["stmts"] if s["k"] != "item"] and e.get("tail"):
            e = e["tail"]
        if e["k"] == "block" and len(e["stmts"]) == 1 and e["stmts"][0]["k"] in ("semi", "expr") and not e.get("tail"):
            e = e["stmts"][0]["e"]
        props = PROPS.get(fn["name"], ["C10"])
        ok = e["k"] == "call" and e.get("callee") is not None
        why = ""
        if ok:
            ids = param_ids(fn)
            args = [local_of(a) for a in e["args"]]
            if args != ids:
                ok = False
                why = "arguments are not exactly the parameters in order"
            tgt = e["callee"].get("res") or e["callee"]["def"]
            if not e["callee"].get("local") and not e["callee"].get("res_local"):
                ok = False
                why = "does not call a crate function"
        else:
            why = "body is not a single call"
        inst.append({"name": p, "sp": fn["sp"], "props": props, "verdict": "holds" if ok else "violated",
                     "delegates_to": (e["callee"].get("res") or e["callee"]["def"]) if e["k"] == "call" and e.get("callee") else None})
        if not ok:
            viol.append({"key": f"DELEG|{p}", "fn": p, "sp": fn["sp"], "props": props,
                         "msg": f"deprecated alias {p} is not a plain delegation: {why}"})
    return {"statement": __doc__, "instances": inst, "violations": viol,
            "floors": {"C09": 1, "C10": 2, "C11": 1}}
