"""SERDE (C11, serde configuration): Serialize and Deserialize are derived (not hand-written) for the five
lax types, no attribute changes the wire names (rename/skip/flatten/with/tag/transparent/default), and
the JSON example in README.md uses exactly the struct field names at each nesting level."""
import json
import os
import re

TYPES = ["lax::hypergraph::NodeId", "lax::hypergraph::EdgeId", "lax::hypergraph::Hyperedge",
         "lax::hypergraph::Hypergraph", "lax::open_hypergraph::OpenHypergraph"]
BAD = ("rename", "skip", "flatten", "with =", "tag =", "transparent", "untagged", "default", "alias", "content =")


def run(facts, serde_facts, tier):
    if serde_facts is None:
        return {"error": "serde configuration was not exported"}
    inst, viol = [], []

    def add(name, sp, ok, msg):
        inst.append({"name": name, "sp": sp, "props": ["C11"], "verdict": "holds" if ok else "violated"})
        if not ok:
            viol.append({"key": f"SERDE|{name}", "fn": name, "sp": sp, "props": ["C11"], "msg": msg})
    for t in TYPES:
        short = t.split("::")[-1]
        for tr in ("Serialize", "Deserialize"):
            impls = [i for i in serde_facts.impls if i.get("trait", "").endswith("::" + tr) and
                     i["self_s"].split("<")[0] == t]
            derived = [i for i in impls if i.get("mac") and any(tr in m for m in i["mac"])]
            ok = len(impls) >= 1 and len(derived) == len(impls)
            add(f"{short}: {tr} derived", impls[0]["sp"] if impls else "?", ok,
                f"{t}: {tr} is {'hand-written' if impls else 'missing'} (expected #[derive])")
        sd = serde_facts.structs.get(t)
        if sd is None:
            add(f"{short}: struct present", "?", False, f"{t} not found")
            continue
        attrs = " ".join(sd.get("attrs", []))
        sattrs = " ".join(a for a in sd.get("attrs", []) if "serde" in a.lower())
        bad = [b for b in BAD if b in sattrs]
        add(f"{short}: no serde attribute changes the wire format", sd["sp"], not bad,
            f"{t}: serde attribute(s) {bad} change the wire format")
    # README field names
    repo = os.environ.get("OHSA_REPO", "/repo")
    try:
        readme = open(os.path.join(repo, "README.md")).read()
    except OSError:
        readme = ""
    blocks = re.findall(r"```json\s*(.*?)```", readme, re.S)
    doc = None
    for b in blocks:
        try:
            doc = json.loads(b)
            break
        except Exception:
            continue

    def fields(t):
        return [f["name"] for f in serde_facts.structs[t]["fields"]]
    if doc is None:
        add("README: JSON example parses", "README.md", False, "README.md has no parsable ```json block")
    else:
        ok = isinstance(doc, dict) and sorted(doc.keys()) == sorted(fields(TYPES[4]))
        add("README: OpenHypergraph keys = field names", "README.md", ok,
            f"README keys {sorted(doc.keys()) if isinstance(doc, dict) else doc} != fields {sorted(fields(TYPES[4]))}")
        h = doc.get("hypergraph") if isinstance(doc, dict) else None
        ok = isinstance(h, dict) and sorted(h.keys()) == sorted(fields(TYPES[3]))
        add("README: Hypergraph keys = field names", "README.md", ok,
            f"README hypergraph keys {sorted(h.keys()) if isinstance(h, dict) else h} != fields {sorted(fields(TYPES[3]))}")
        adj = h.get("adjacency") if isinstance(h, dict) else None
        ok = isinstance(adj, list) and all(isinstance(e, dict) and sorted(e.keys()) == sorted(fields(TYPES[2])) for e in adj)
        add("README: Hyperedge keys = field names", "README.md", ok,
            f"README adjacency entries do not use fields {sorted(fields(TYPES[2]))}")
    return {"statement": __doc__, "instances": inst, "violations": viol, "floors": {"C11": 15}}
