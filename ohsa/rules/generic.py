"""GENERIC (C20): (1) audit — every public function of the backend-agnostic modules is generic in the
array kind `K` (exceptions tabulated with a reason); (2) witness — witness/altkind, a foreign ArrayKind
whose index element is not usize and whose primitives are unimplemented!(), instantiates every algorithm
named by the property and must TYPE-CHECK (cargo check; nothing is run)."""
from .witness_util import run_witness

GENERIC_DIRS = ("src/strict/", "src/finite_function/", "src/indexed_coproduct/", "src/semifinite/",
                "src/operations.rs", "src/category/")
EXCEPTIONS = {
    "indexed_coproduct::semifinite_iterator::<impl indexed_coproduct::arrow::IndexedCoproduct<array::vec::vec_array::VecKind, "
    "semifinite::types::SemifiniteFunction<array::vec::vec_array::VecKind, T>>>::iter":
        "Vec-only slice iterator used by the lax layer (documented convenience)",
    "operations::Operations::<array::vec::vec_array::VecKind, O, A>::iter":
        "Vec-only slice iterator used by the lax layer (documented convenience)",
}
WITNESS_COVERS = ["compose", "tensor", "identity", "twist", "dagger", "spider", "half_spider", "tensor_operations",
                  "coequalizer", "coequalizer_universal", "injections", "transpose", "is_injective", "flatmap",
                  "map_indexes", "is_acyclic", "is_monogamous", "in_degree", "out_degree", "is_monomorphism",
                  "is_convex_subgraph", "layer", "layered_operations", "eval", "map_arrow", "adapt", "coproduct"]


def run(facts, serde_facts, tier):
    inst, viol = [], []
    n_generic = 0
    for p, fn in sorted(facts.fns.items()):
        if not fn["sp"].startswith(GENERIC_DIRS) or "/tests/" in fn["sp"]:
            continue
        if fn.get("vis") != "pub":
            continue
        m = fn.get("mac")
        if m and any("derive" in x or x in ("Clone", "PartialEq", "Debug", "Eq") for x in m):
            continue
        gens = fn.get("generics", [])
        # generic in the array kind: the item has a type parameter and is not specialised to the Vec backend (the
        # parameter's NAME is not part of the rule: `K` may be called anything)
        tparams = [g for g in gens if not g.startswith("'")]
        ok = bool(tparams) and "VecKind" not in p
        if not ok and p in EXCEPTIONS:
            inst.append({"name": p, "sp": fn["sp"], "props": ["C20"], "verdict": "exception: " + EXCEPTIONS[p]})
            continue
        if not ok and "VecKind" not in p and not gens:
            # not generic and not array-related at all (e.g. error enum Debug impls)
            if fn.get("impl_trait", "").startswith("std::fmt"):
                continue
        n_generic += 1 if ok else 0
        if not ok:
            inst.append({"name": p, "sp": fn["sp"], "props": ["C20"], "verdict": "violated"})
            viol.append({"key": f"GENERIC|{p}", "fn": p, "sp": fn["sp"], "props": ["C20"],
                         "msg": f"{p} is public in a backend-agnostic module but not generic in the array kind K "
                                f"(generics: {gens})"})
    inst.append({"name": f"audit: {n_generic} public functions generic in K", "sp": "", "props": ["C20"], "verdict": "holds"})
    rc, out = run_witness("altkind", ["check"])
    ok = rc == 0
    inst.append({"name": "witness altkind type-checks (foreign ArrayKind, index element != usize)", "sp": "witness/altkind/src/lib.rs",
                 "props": ["C20"], "verdict": "holds" if ok else "violated", "covers": WITNESS_COVERS})
    if not ok:
        errs = [l for l in out.splitlines() if l.startswith("error")][:5]
        viol.append({"key": "GENERIC|witness-altkind", "fn": "witness/altkind", "sp": "witness/altkind/src/lib.rs",
                     "props": ["C20"], "msg": "the strict algorithms no longer type-check at a foreign ArrayKind: " + " | ".join(errs),
                     "detail": out[-1500:]})
    return {"statement": __doc__, "instances": inst, "violations": viol, "floors": {"C20": 2},
            "n_generic": n_generic}
