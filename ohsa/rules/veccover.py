"""VECCOVER (C07): every method the Vec backend implements for the three array-contract traits is either analysed
against the contract (an entry point of VECSPEC) or declared out of reach with a reason; nothing is skipped silently."""
import vecspec


def run(facts, serde_facts, tier):
    inst, viol = [], []
    for p, fn in sorted(facts.fns.items()):
        if not fn["sp"].startswith(vecspec.VEC_FILE) or fn.get("impl_trait") not in vecspec.CONTRACT_TRAITS:
            continue
        nm = fn["name"]
        if vecspec.is_vec_entry(fn):
            verdict = "analysed against the contract"
        elif nm in vecspec.OUT_OF_REACH:
            verdict = "declared out of reach: " + vecspec.OUT_OF_REACH[nm]
        else:
            verdict = "violated"
            viol.append({"key": f"VECCOVER|{nm}", "fn": p, "sp": fn["sp"], "props": ["C07"],
                         "msg": f"Vec primitive {nm} is neither analysed nor declared"})
        inst.append({"name": f"VECCOVER {nm}", "sp": fn["sp"], "props": ["C07"], "verdict": verdict})
    return {"statement": __doc__, "instances": inst, "violations": viol, "floors": {"C07": 20}}
