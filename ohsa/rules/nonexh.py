"""NONEXH (C05/C08/C20): IndexedCoproduct and Operations are #[non_exhaustive] (exported struct facts), so an
external crate cannot bypass their checked constructors; witness/nonexh holds the compile_fail,E0639 doctests
with compiling (no_run) twins, built with `cargo +nightly test --doc` (error codes are ignored on stable)."""
from .witness_util import run_witness

TYPES = ["indexed_coproduct::arrow::IndexedCoproduct", "operations::Operations"]


def run(facts, serde_facts, tier):
    inst, viol = [], []
    for t in TYPES:
        sd = facts.structs.get(t)
        ok = sd is not None and sd.get("non_exhaustive")
        inst.append({"name": f"{t} is #[non_exhaustive]", "sp": sd["sp"] if sd else "?", "props": ["C05", "C08", "C20"],
                     "verdict": "holds" if ok else "violated"})
        if not ok:
            viol.append({"key": f"NONEXH|{t}", "fn": t, "sp": sd["sp"] if sd else "?", "props": ["C05", "C08", "C20"],
                         "msg": f"{t} is not #[non_exhaustive]: external crates can build it by literal, bypassing validation"})
    rc, out = run_witness("nonexh", ["test", "--doc"], toolchain="+nightly")
    ok = rc == 0 and "test result: ok. 4 passed" in out
    inst.append({"name": "witness nonexh: 2 compile_fail,E0639 + 2 compiling twins", "sp": "witness/nonexh/src/lib.rs",
                 "props": ["C05", "C08", "C20"], "verdict": "holds" if ok else "violated"})
    if not ok:
        viol.append({"key": "NONEXH|witness", "fn": "witness/nonexh", "sp": "witness/nonexh/src/lib.rs",
                     "props": ["C05", "C08", "C20"], "msg": "the non_exhaustive compile-fail witnesses no longer behave as expected",
                     "detail": out[-1500:]})
    return {"statement": __doc__, "instances": inst, "violations": viol, "floors": {"C05": 3, "C08": 3, "C20": 3}}
