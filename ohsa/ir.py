"""Loading of ohx fact files and a compact pretty-printer for the typed HIR."""
import json


class Facts:
    def __init__(self, path):
        with open(path) as fh:
            d = json.load(fh)
        self.raw = d
        self.crate = d["crate"]
        self.config = d["config"]
        self.types = d["types"]
        self.fns = {}
        for f in d["fns"]:
            self.fns[f["path"]] = f
        self.structs = {s["path"]: s for s in d["structs"]}
        self.enums = {e["path"]: e for e in d["enums"]}
        self.traits = {t["path"]: t for t in d["traits"]}
        self.impls = d["impls"]
        self.unsupported = d["unsupported"]
        self.n_body_owners = d["n_body_owners"]
        self.n_closures = d["n_closures"]

    def ty(self, ix):
        return self.types[ix] if ix is not None else None

    def tystr(self, ix):
        return self.types[ix]["s"] if ix is not None else "?"

    def find_fn(self, suffix):
        """Return the functions whose def path ends with `suffix`."""
        return [f for p, f in self.fns.items() if p.endswith(suffix)]


def walk(e, fn):
    """Pre-order walk over an expression tree (dict nodes)."""
    if e is None:
        return
    if isinstance(e, list):
        for x in e:
            walk(x, fn)
        return
    if not isinstance(e, dict):
        return
    if "k" in e and "ty" in e and "sp" in e:
        fn(e)
    for k, v in e.items():
        if k in ("callee", "res", "pat", "params"):
            continue
        if isinstance(v, (dict, list)):
            walk(v, fn)


def callee_name(c):
    if c is None:
        return "?"
    return c.get("res") or c.get("def")


def pp(e, facts, ind=0):
    """Pretty-print an expression as indented text (debugging aid)."""
    pad = "  " * ind
    if e is None:
        return pad + "()"
    k = e["k"]
    mac = (" @" + "/".join(e["mac"])) if e.get("mac") else ""
    adj = (" adj=" + ",".join(e["adj"])) if e.get("adj") else ""
    head = f"{pad}{k}{mac}{adj} : {facts.tystr(e.get('ty'))}"
    out = []
    if k == "lit":
        return head + " " + e["v"]
    if k == "path":
        r = e["res"]
        if r["k"] == "local":
            return head + f" local {r['name']}#{r['id']}"
        return head + " " + r.get("path", r.get("s", "?"))
    if k in ("call", "binary", "unary", "index", "assign_op", "ctor", "assign", "tuple", "array", "call_value"):
        c = e.get("callee")
        nm = callee_name(c) if c else e.get("op", e.get("path", ""))
        out.append(head + " " + str(nm) + (" op=" + e["op"] if "op" in e else ""))
        if k == "call_value":
            out.append(pp(e["f"], facts, ind + 1))
        for a in e["args"]:
            out.append(pp(a, facts, ind + 1))
        return "\n".join(out)
    if k == "field":
        return head + " ." + e["name"] + "\n" + pp(e["e"], facts, ind + 1)
    if k in ("ref", "cast", "repeat"):
        return head + (" mut" if e.get("mut") else "") + "\n" + pp(e["e"], facts, ind + 1)
    if k in ("ret", "break"):
        return head + ("\n" + pp(e["e"], facts, ind + 1) if e.get("e") else "")
    if k == "continue":
        return head
    if k == "let":
        return head + " " + ppat(e["pat"]) + "\n" + pp(e["init"], facts, ind + 1)
    if k == "if":
        out = [head, pp(e["cond"], facts, ind + 1), pad + " then", pp(e["then"], facts, ind + 1)]
        if e.get("else"):
            out += [pad + " else", pp(e["else"], facts, ind + 1)]
        return "\n".join(out)
    if k in ("block", "loop"):
        out = [head + (" src=" + e["src"] if "src" in e else "")]
        for s in e["stmts"]:
            if s["k"] == "let":
                out.append(f"{pad}  let {ppat(s['pat'])} =")
                if s.get("init"):
                    out.append(pp(s["init"], facts, ind + 2))
                if s.get("els"):
                    out.append(f"{pad}  else ...")
            elif s["k"] in ("expr", "semi"):
                out.append(pp(s["e"], facts, ind + 1) + (";" if s["k"] == "semi" else ""))
        if e.get("tail"):
            out.append(pad + "  tail:")
            out.append(pp(e["tail"], facts, ind + 1))
        return "\n".join(out)
    if k == "match":
        out = [head + " src=" + e["src"], pp(e["scrut"], facts, ind + 1)]
        for a in e["arms"]:
            out.append(f"{pad}  | {ppat(a['pat'])} =>")
            if a.get("guard"):
                out.append(pp(a["guard"], facts, ind + 2))
            out.append(pp(a["body"], facts, ind + 2))
        return "\n".join(out)
    if k == "closure":
        return head + " |" + ", ".join(ppat(p) for p in e["params"]) + "|\n" + pp(e["body"], facts, ind + 1)
    if k == "struct":
        out = [head + " " + e.get("path", "?")]
        for f in e["fields"]:
            out.append(f"{pad}  .{f['name']} =")
            out.append(pp(f["e"], facts, ind + 2))
        if e.get("base"):
            out.append(pad + "  ..base")
            out.append(pp(e["base"], facts, ind + 2))
        return "\n".join(out)
    return head + " <?>"


def ppat(p):
    k = p["k"]
    if k == "wild":
        return "_"
    if k == "bind":
        return ("ref " if p.get("by_ref") else "") + ("mut " if p.get("mut") else "") + f"{p['name']}#{p['id']}" + (
            "@" + ppat(p["sub"]) if p.get("sub") else "")
    if k == "tuple":
        return "(" + ", ".join(ppat(x) for x in p["pats"]) + ")"
    if k == "tuple_struct":
        return p["res"].get("path", "?") + "(" + ", ".join(ppat(x) for x in p["pats"]) + ")"
    if k == "struct":
        return p["res"].get("path", "?") + "{" + ", ".join(f["name"] + ":" + ppat(f["pat"]) for f in p["fields"]) + "}"
    if k == "ref":
        return "&" + ppat(p["pat"])
    if k == "lit":
        return p.get("v") or p.get("res", {}).get("path", "?")
    if k == "or":
        return " | ".join(ppat(x) for x in p["pats"])
    return "<" + k + ">"


if __name__ == "__main__":
    import sys
    facts = Facts(sys.argv[1])
    for f in facts.find_fn(sys.argv[2]):
        print("fn", f["path"], "vis", f["vis"], "ret", facts.tystr(f["ret"]))
        for p in f["params"]:
            print("  param", ppat(p["pat"]), ":", facts.tystr(p["ty"]))
        print(pp(f["body"], facts, 1))
