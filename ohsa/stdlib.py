"""Transfer functions for core/std/num_traits items used by the crate, and the documented
contracts of user-supplied trait methods (assumptions)."""
from poly import Poly, as_poly, show_poly
from values import *


def deref(I, st, v):
    while isinstance(v, VMutRef):
        v = I.read_place(st, v.place)
    return v


# ------------------------------------------------------------------------------- helpers

def primitive_binop(I, st, fr, e, op, a, b):
    a, b = deref(I, st, a), deref(I, st, b)
    if op in ("==", "!=", "<", "<=", ">", ">="):
        f = compare(I, st, op, a, b, e)
        return [(st, VBool(f), None)]
    if op == "+":
        return [(st, add_values(I, st, fr, e, a, b), None)]
    if op == "-":
        return [(st, sub_values(I, st, fr, e, a, b), None)]
    if op == "*":
        if isinstance(a, VNat) and isinstance(b, VNat):
            return [(st, VNat(a.p * b.p), None)]
        return [(st, VTop("mul"), None)]
    if op in ("/", "%"):
        if isinstance(a, VNat) and isinstance(b, VNat):
            I.pre_ge(st, fr, e, "div", b.p, 1, f"{show_poly(b.p)} != 0")
            return [(st, VNat(Poly.atom((op, a.p, b.p))), None)]
        return [(st, VTop("div"), None)]
    if op in ("&", "|", "^", "<<", ">>"):
        return [(st, VTop("bitop"), None)]
    raise NotImplementedError("binop " + op)


def compare(I, st, op, a, b, e=None):
    if isinstance(a, VNat) and isinstance(b, VNat):
        d = a.p - b.p
        if op == "==":
            return ("cmp", "eq", d)
        if op == "!=":
            return ("cmp", "ne", d)
        if op == ">=":
            return ("cmp", "ge", d)
        if op == ">":
            return ("cmp", "ge", d - 1)
        if op == "<=":
            return ("cmp", "ge", -d)
        if op == "<":
            return ("cmp", "ge", -d - 1)
    if op in ("==", "!="):
        f = equal_formula(I, st, a, b, e)
        return f if op == "==" else f_not(f)
    return ("unk", ("cmp", e["sp"] if e else "?"))


def equal_formula(I, st, a, b, e=None):
    a, b = deref(I, st, a), deref(I, st, b)
    if isinstance(a, VNat) and isinstance(b, VNat):
        return ("cmp", "eq", a.p - b.p)
    if isinstance(a, VSeq) and isinstance(b, VSeq):
        return ("teq", a.t, b.t)
    if isinstance(a, VRec) and isinstance(b, VRec) and a.ty == b.ty:
        f = ("true",)
        for k in a.f:
            f = f_and(f, equal_formula(I, st, a.f[k], b.f[k], e))
        return f
    if isinstance(a, VTup) and isinstance(b, VTup):
        f = ("true",)
        for x, y in zip(a.items, b.items):
            f = f_and(f, equal_formula(I, st, x, y, e))
        return f
    if isinstance(a, VEnum) and isinstance(b, VEnum):
        if a.variant != b.variant:
            return ("false",)
        f = ("true",)
        for x, y in zip(a.payload, b.payload):
            f = f_and(f, equal_formula(I, st, x, y, e))
        return f
    if isinstance(a, VBool) and isinstance(b, VBool):
        return f_or(f_and(a.f, b.f), f_and(f_not(a.f), f_not(b.f)))
    if isinstance(a, VUser) and isinstance(b, VUser):
        if a.key == b.key:
            return ("true",)
        return ("unk", ("eq", a.key, b.key))
    return ("unk", ("eq", repr(a)[:60], repr(b)[:60]))


def add_values(I, st, fr, e, a, b):
    if isinstance(a, VNat) and isinstance(b, VNat):
        return VNat(a.p + b.p)
    if isinstance(a, VNat) and isinstance(b, VSeq):
        return VSeq(mk_shift(a.p, b.t))
    if isinstance(a, VSeq) and isinstance(b, VSeq):
        I.pre_eq(st, fr, e, "array +", t_len(a.t), t_len(b.t))
        return VSeq(mk_add(st, a.t, b.t))
    if isinstance(a, VUser) and isinstance(b, VUser):
        return VUser(("binop", "+", a.key, b.key))      # element type's own addition: uninterpreted
    return VTop("add")


def sub_values(I, st, fr, e, a, b):
    if isinstance(a, VNat) and isinstance(b, VNat):
        import rules_terms
        r = None if st.ge(a.p, b.p) else rules_terms.trusted_sub(I, st, fr, a.p, b.p)
        if r:
            I.oblige("PRE", fr, e, "-", f"{show_poly(b.p)} <= {show_poly(a.p)} (no underflow)", True, r)
            st.add_ge(a.p - b.p)
        else:
            I.pre_ge(st, fr, e, "-", a.p, b.p, f"{show_poly(b.p)} <= {show_poly(a.p)} (no underflow)")
        return VNat(a.p - b.p)
    if isinstance(a, VSeq) and isinstance(b, VSeq):
        I.pre_eq(st, fr, e, "array -", t_len(a.t), t_len(b.t))
        import rules_terms
        r = rules_terms.prove_elem_le(I, st, b.t, a.t)
        I.oblige("PRE", fr, e, "array -", f"elementwise {show_term(b.t)} <= {show_term(a.t)} (no underflow)",
                 bool(r), r or "", detail="" if r else I.describe(st))
        return VSeq(("sub", a.t, b.t))
    if isinstance(a, VUser) and isinstance(b, VUser):
        return VUser(("binop", "-", a.key, b.key))      # element type's own subtraction: uninterpreted
    return VTop("sub")


def index_value(I, st, v, ip):
    """Element read `v[ip]` without obligations (used by place projection)."""
    v = deref(I, st, v)
    if isinstance(v, VSeq):
        import lax_model
        return lax_model.seq_elem(I, st, v, ip)
    if isinstance(v, VTop):
        return VTop(v.why + "[]")
    raise NotImplementedError("index of " + type(v).__name__)


def update_index(I, st, v, ip, rest, val):
    import lax_model
    return lax_model.seq_update(I, st, v, ip, rest, val)


def index_expr(I, st, fr, e, base, ix):
    import lax_model
    return lax_model.index_expr(I, st, fr, e, base, ix)


def list_from_values(I, st, vals):
    import lax_model
    return lax_model.list_from_values(I, st, vals)


# ------------------------------------------------------------------------------- Option / Result

def is_opt(v):
    return isinstance(v, VEnum) and v.variant in ("Some", "None")


def is_res(v):
    return isinstance(v, VEnum) and v.variant in ("Ok", "Err")


def h_unwrap(I, st, fr, e, c, a):
    v = deref(I, st, a[0])
    if isinstance(v, VEnum):
        if v.variant in ("Some", "Ok"):
            return [(st, v.payload[0], None)]
        # `expect(msg)` is `unwrap()` with a message: one name for the obligation, whichever form is written
        I.panic_path(st, fr, e, "UNW", "unwrap on " + v.variant)
        return []
    if isinstance(v, VTop):
        I.oblige("UNW", fr, e, "unwrap", "value unknown (" + v.why + ")", False, "", detail=I.describe(st))
        return [(st, VTop("unwrap " + v.why), None)]
    raise NotImplementedError("unwrap of " + repr(v))


def h_opt_map(I, st, fr, e, c, a):
    v = deref(I, st, a[0])
    if isinstance(v, VEnum):
        if v.variant in ("None", "Err"):
            return [(st, v, None)]
        out = []
        for (s, r, ctl) in I.apply_value(a[1], [v.payload[0]], st, fr, e):
            out.append((s, VEnum(v.enum, v.variant, (r,)), ctl))
        return out
    if isinstance(v, VTop):
        return [(st, VTop("map " + v.why), None)]
    if isinstance(v, VUser):
        # an Option-valued element of unknown tag: both cases
        s2 = st.copy()
        inner = VNat(Poly.atom(("somev", v.key)))
        out = [(s2, NONE, None)]
        for (s3, r, ctl) in I.apply_value(a[1], [inner], st, fr, e):
            out.append((s3, some(r), ctl))
        return out
    raise NotImplementedError("map of " + repr(v))


def h_map_or(I, st, fr, e, c, a):
    v = deref(I, st, a[0])
    if isinstance(v, VEnum):
        if v.variant == "None":
            return [(st, a[1], None)]
        return I.apply_value(a[2], [v.payload[0]], st, fr, e)
    return [(st, VTop("map_or"), None)]


def h_unwrap_or(I, st, fr, e, c, a):
    v = deref(I, st, a[0])
    if isinstance(v, VEnum):
        if v.variant in ("None", "Err"):
            return [(st, a[1], None)]
        return [(st, v.payload[0], None)]
    return [(st, VTop("unwrap_or"), None)]


def h_ok_or(I, st, fr, e, c, a):
    v = deref(I, st, a[0])
    if isinstance(v, VEnum):
        if v.variant == "None":
            if isinstance(a[1], VClosure):
                return [(s2, err(r), ctl) for (s2, r, ctl) in I.apply_value(a[1], [], st, fr, e)]
            return [(st, err(a[1]), None)]
        return [(st, ok(v.payload[0]), None)]
    return [(st, VTop("ok_or"), None)]


def h_res_map(I, st, fr, e, c, a):
    return h_opt_map(I, st, fr, e, c, a)


def h_try_branch(I, st, fr, e, c, a):
    v = deref(I, st, a[0])
    if isinstance(v, VEnum):
        if v.variant in ("Some", "Ok"):
            return [(st, VEnum("ControlFlow", "Continue", (v.payload[0],)), None)]
        return [(st, VEnum("ControlFlow", "Break", (v,)), None)]
    if isinstance(v, VTop):
        s2 = st.copy()
        return [(st, VEnum("ControlFlow", "Continue", (VTop("?" + v.why),)), None),
                (s2, VEnum("ControlFlow", "Break", (VTop("residual"),)), None)]
    raise NotImplementedError("? on " + repr(v))


def h_from_residual(I, st, fr, e, c, a):
    v = a[0]
    if isinstance(v, VEnum) and v.variant == "Err":
        # error conversion through From
        tyd = I.facts.ty(e["ty"])
        inner = v.payload[0]
        if isinstance(inner, VEnum) and inner.enum == "InvalidHypergraph":
            inner = VEnum("InvalidOpenHypergraph", "InvalidHypergraph", (inner,))
        return [(st, err(inner), None)]
    return [(st, v, None)]


# ------------------------------------------------------------------------------- conversions

def h_identity(I, st, fr, e, c, a):
    return [(st, deref(I, st, a[0]), None)]


def h_identity_ref(I, st, fr, e, c, a):
    # place-preserving (as_mut / index_mut / deref_mut): keep the reference
    return [(st, a[0], None)]


def h_clone(I, st, fr, e, c, a):
    if c is not None and c.get("self_ty") is not None and I.facts.tystr(c["self_ty"]).startswith("std::rc::Rc"):
        return [(st, a[0], None)]     # cloning a handle shares the cell
    return [(st, deref(I, st, a[0]), None)]


def h_zero(I, st, fr, e, c, a):
    return [(st, VNat(0), None)]


def h_one(I, st, fr, e, c, a):
    return [(st, VNat(1), None)]


def h_is_zero(I, st, fr, e, c, a):
    v = deref(I, st, a[0])
    if isinstance(v, VNat):
        return [(st, VBool(("cmp", "eq", v.p)), None)]
    return None


def h_eq(I, st, fr, e, c, a):
    return [(st, VBool(equal_formula(I, st, a[0], a[1], e)), None)]


def h_ne(I, st, fr, e, c, a):
    return [(st, VBool(f_not(equal_formula(I, st, a[0], a[1], e))), None)]


def mk_cmp(op):
    def h(I, st, fr, e, c, a):
        return [(st, VBool(compare(I, st, op, deref(I, st, a[0]), deref(I, st, a[1]), e)), None)]
    return h


def h_add(I, st, fr, e, c, a):
    return [(st, add_values(I, st, fr, e, deref(I, st, a[0]), deref(I, st, a[1])), None)]


def h_sub(I, st, fr, e, c, a):
    return [(st, sub_values(I, st, fr, e, deref(I, st, a[0]), deref(I, st, a[1])), None)]


def h_mul(I, st, fr, e, c, a):
    x, y = deref(I, st, a[0]), deref(I, st, a[1])
    if isinstance(x, VNat) and isinstance(y, VNat):
        return [(st, VNat(x.p * y.p), None)]
    return [(st, VTop("mul"), None)]


def h_default(I, st, fr, e, c, a):
    tyd = I.facts.ty(e["ty"])
    if tyd["k"] == "adt" and (tyd["path"].endswith("vec::Vec") or tyd["path"].endswith("VecArray")):
        return [(st, VSeq(EMPTY), None)]
    return [(st, VUser("default"), None)]


def h_div(I, st, fr, e, c, a):
    return primitive_binop(I, st, fr, e, "/", a[0], a[1])


def h_rem(I, st, fr, e, c, a):
    return primitive_binop(I, st, fr, e, "%", a[0], a[1])


def h_bound_cloned(I, st, fr, e, c, a):
    return [(st, a[0], None)]


def h_start_bound(I, st, fr, e, c, a):
    return range_bound(I, st, a[0], "start")


def h_end_bound(I, st, fr, e, c, a):
    return range_bound(I, st, a[0], "end")


def range_bound(I, st, r, which):
    """RangeBounds::{start,end}_bound on an abstract range parameter: enumerate the forms."""
    r = deref(I, st, r)
    if isinstance(r, VUser) and r.key.startswith("range"):
        out = []
        for form in ("Included", "Excluded", "Unbounded"):
            s = st.copy()
            s.note(f"{which}_bound={form}")
            if form == "Unbounded":
                out.append((s, VEnum("Bound", form, ()), None))
            else:
                out.append((s, VEnum("Bound", form, (VNat(Poly.atom(("bound", r.key, which))),)), None))
        return out
    raise NotImplementedError("range bound of " + repr(r))


SIMPLE = {
    "std::option::Option::<T>::unwrap": h_unwrap,
    "std::option::Option::<T>::expect": h_unwrap,
    "std::result::Result::<T, E>::unwrap": h_unwrap,
    "std::result::Result::<T, E>::expect": h_unwrap,
    "std::option::Option::<T>::map": h_opt_map,
    "std::result::Result::<T, E>::map": h_opt_map,
    "std::option::Option::<T>::map_or": h_map_or,
    "std::option::Option::<T>::unwrap_or": h_unwrap_or,
    "std::option::Option::<T>::ok_or": h_ok_or,
    "std::ops::Try::branch": h_try_branch,
    "std::ops::FromResidual::from_residual": h_from_residual,
    "std::convert::AsRef::as_ref": h_identity,
    "std::convert::AsMut::as_mut": h_identity_ref,
    "std::default::Default::default": h_default,
    "std::ops::Div::div": h_div,
    "std::ops::Rem::rem": h_rem,
    "std::ops::Bound::<&T>::cloned": h_bound_cloned,
    "std::ops::RangeBounds::start_bound": h_start_bound,
    "std::ops::RangeBounds::end_bound": h_end_bound,
    "std::cmp::PartialOrd::ge": mk_cmp(">="),
    "std::cmp::PartialOrd::gt": mk_cmp(">"),
    "std::cmp::PartialOrd::le": mk_cmp("<="),
    "std::cmp::PartialOrd::lt": mk_cmp("<"),
}

# functions that are inlined when the resolved impl is in the crate, else handled here
FALLBACK = {
    "std::clone::Clone::clone": h_clone,
    "std::convert::Into::into": h_identity,
    "std::convert::From::from": h_identity,
    "std::cmp::PartialEq::eq": h_eq,
    "std::cmp::PartialEq::ne": h_ne,
    "std::ops::Add::add": h_add,
    "std::ops::Sub::sub": h_sub,
    "std::ops::Mul::mul": h_mul,
    "num_traits::Zero::zero": h_zero,
    "num_traits::One::one": h_one,
    "num_traits::Zero::is_zero": h_is_zero,
}


def lookup(I, callee, vals):
    d = callee["def"]
    h = SIMPLE.get(d)
    if h is not None:
        return h
    import lax_model
    h = lax_model.TABLE.get(d)
    if h is not None:
        return h
    h = FALLBACK.get(d)
    if h is None:
        return None
    if d == "std::clone::Clone::clone":
        return h
    # crate impl resolved statically -> inline it (except on transparent scalars)
    v0 = deref_quiet(vals[0]) if vals else None
    if callee.get("res_local") and not isinstance(v0, (VNat, VSeq)):
        return None
    if not callee.get("res") and callee.get("local") is False:
        # unresolved generic call: dynamic dispatch if the value is a crate record
        if isinstance(v0, VRec) and I.dynamic_dispatch(callee, vals) is not None and d not in (
                "std::cmp::PartialEq::eq", "std::cmp::PartialEq::ne"):
            return lambda I2, st, fr, e, c, a: I2.call_fn(I2.dynamic_dispatch(c, a), a, st, fr, e)
    if d in ("num_traits::Zero::zero", "num_traits::One::one"):
        return h
    return h


def deref_quiet(v):
    return v


# ------------------------------------------------------------------------------- user contracts

def user_contract(I, callee, vals):
    import contracts
    return contracts.lookup(I, callee, vals)


def user_closure(I, f, args):
    import contracts
    return contracts.closure(I, f, args)


# ------------------------------------------------------------------------------- more Option/Result/integer combinators

def _opt_cases(I, st, v):
    """[(state, tag, payload)] for an option/result value (unknown values fork)."""
    v = deref(I, st, v)
    if isinstance(v, VEnum):
        return [(st, v.variant, v.payload[0] if v.payload else None, v)]
    if isinstance(v, VUser):
        # an option-valued element of unknown tag: the decision is a fact of the path (as in pattern matching), the
        # payload a function of the element
        key = ("is_some", v.key)
        if (key, True) in st.unk:
            return [(st, "Some", VNat(Poly.atom(("somev", v.key))), None)]
        if (key, False) in st.unk:
            return [(st, "None", None, None)]
        s2 = st.copy()
        st.unk = st.unk + ((key, True),)
        s2.unk = s2.unk + ((key, False),)
        return [(st, "Some", VNat(Poly.atom(("somev", v.key))), None), (s2, "None", None, None)]
    if isinstance(v, VTop):
        s2 = st.copy()
        key = getattr(v, "why", None) or getattr(v, "key", "?")
        return [(st, "Some", VTop("payload of " + str(key)), None), (s2, "None", None, None)]
    raise NotImplementedError("option value " + repr(v)[:60])


def _as_bool(I, r, e, tag):
    return r.f if isinstance(r, VBool) else ("unk", (tag, e["sp"]))


def h_is_some_and(I, st, fr, e, c, a):
    out = []
    for (s, tag, pl, _) in _opt_cases(I, st, a[0]):
        if tag in ("Some", "Ok"):
            for (s2, r, ctl) in I.apply_value(a[1], [pl], s, fr, e):
                out.append((s2, VBool(_as_bool(I, r, e, "is_some_and")), ctl))
        else:
            out.append((s, FALSE, None))
    return out


def h_is_none_or(I, st, fr, e, c, a):
    out = []
    for (s, tag, pl, _) in _opt_cases(I, st, a[0]):
        if tag in ("Some", "Ok"):
            for (s2, r, ctl) in I.apply_value(a[1], [pl], s, fr, e):
                out.append((s2, VBool(_as_bool(I, r, e, "is_none_or")), ctl))
        else:
            out.append((s, TRUE, None))
    return out


def h_is_some(I, st, fr, e, c, a):
    return [(s, TRUE if tag in ("Some", "Ok") else FALSE, None) for (s, tag, pl, _) in _opt_cases(I, st, a[0])]


def h_is_none(I, st, fr, e, c, a):
    return [(s, FALSE if tag in ("Some", "Ok") else TRUE, None) for (s, tag, pl, _) in _opt_cases(I, st, a[0])]


def h_unwrap_or_else(I, st, fr, e, c, a):
    out = []
    for (s, tag, pl, _) in _opt_cases(I, st, a[0]):
        if tag in ("Some", "Ok"):
            out.append((s, pl, None))
        else:
            args = [] if tag == "None" else [pl]
            out.extend(I.apply_value(a[1], args, s, fr, e))
    return out


def h_map_or_else(I, st, fr, e, c, a):
    out = []
    for (s, tag, pl, _) in _opt_cases(I, st, a[0]):
        if tag in ("Some", "Ok"):
            out.extend(I.apply_value(a[2], [pl], s, fr, e))
        else:
            out.extend(I.apply_value(a[1], [] if tag == "None" else [pl], s, fr, e))
    return out


def h_and_then(I, st, fr, e, c, a):
    out = []
    for (s, tag, pl, orig) in _opt_cases(I, st, a[0]):
        if tag in ("Some", "Ok"):
            out.extend(I.apply_value(a[1], [pl], s, fr, e))
        else:
            out.append((s, orig if orig is not None else NONE, None))
    return out


def h_or_else(I, st, fr, e, c, a):
    out = []
    for (s, tag, pl, orig) in _opt_cases(I, st, a[0]):
        if tag in ("Some", "Ok"):
            out.append((s, orig if orig is not None else some(pl), None))
        else:
            out.extend(I.apply_value(a[1], [] if tag == "None" else [pl], s, fr, e))
    return out


def h_opt_filter(I, st, fr, e, c, a):
    out = []
    for (s, tag, pl, orig) in _opt_cases(I, st, a[0]):
        if tag == "Some":
            for (s2, r, ctl) in I.apply_value(a[1], [pl], s, fr, e):
                y, n = I.branch(s2, _as_bool(I, r, e, "filter"))
                out += [(s3, some(pl), None) for s3 in y] + [(s3, NONE, None) for s3 in n]
        else:
            out.append((s, NONE, None))
    return out


def h_ok(I, st, fr, e, c, a):
    return [(s, some(pl) if tag == "Ok" else NONE, None) for (s, tag, pl, _) in _opt_cases(I, st, a[0])]


def h_map_err(I, st, fr, e, c, a):
    out = []
    for (s, tag, pl, orig) in _opt_cases(I, st, a[0]):
        if tag == "Err":
            for (s2, r, ctl) in I.apply_value(a[1], [pl], s, fr, e):
                out.append((s2, err(r), ctl))
        else:
            out.append((s, orig if orig is not None else ok(pl), None))
    return out


def h_unwrap_or_default(I, st, fr, e, c, a):
    out = []
    for (s, tag, pl, _) in _opt_cases(I, st, a[0]):
        if tag in ("Some", "Ok"):
            out.append((s, pl, None))
        else:
            tyd = I.facts.ty(e["ty"])
            if tyd["k"] == "bool":
                dflt = FALSE
            elif tyd["k"] in ("uint", "int") or tyd.get("s", "").endswith("::I"):
                dflt = VNat(0)
            else:
                dflt = VTop("default")
            out.append((s, dflt, None))
    return out


def h_saturating_sub(I, st, fr, e, c, a):
    x, y = deref(I, st, a[0]), deref(I, st, a[1])
    if isinstance(x, VNat) and isinstance(y, VNat):
        out = []
        for s in I.assume(st.copy(), ("cmp", "ge", x.p - y.p)):
            out.append((s, VNat(x.p - y.p), None))
        for s in I.assume(st.copy(), ("cmp", "ge", y.p - x.p - 1)):
            out.append((s, VNat(0), None))
        return out
    return [(st, VTop("saturating_sub"), None)]


def h_checked_sub(I, st, fr, e, c, a):
    x, y = deref(I, st, a[0]), deref(I, st, a[1])
    if isinstance(x, VNat) and isinstance(y, VNat):
        out = []
        for s in I.assume(st.copy(), ("cmp", "ge", x.p - y.p)):
            out.append((s, some(VNat(x.p - y.p)), None))
        for s in I.assume(st.copy(), ("cmp", "ge", y.p - x.p - 1)):
            out.append((s, NONE, None))
        return out
    return [(st, VTop("checked_sub"), None)]


def h_min(I, st, fr, e, c, a):
    x, y = deref(I, st, a[0]), deref(I, st, a[1])
    if isinstance(x, VNat) and isinstance(y, VNat):
        out = []
        for s in I.assume(st.copy(), ("cmp", "ge", y.p - x.p)):
            out.append((s, VNat(x.p), None))
        for s in I.assume(st.copy(), ("cmp", "ge", x.p - y.p - 1)):
            out.append((s, VNat(y.p), None))
        return out
    return [(st, VTop("min"), None)]


def h_max2(I, st, fr, e, c, a):
    x, y = deref(I, st, a[0]), deref(I, st, a[1])
    if isinstance(x, VNat) and isinstance(y, VNat):
        out = []
        for s in I.assume(st.copy(), ("cmp", "ge", x.p - y.p)):
            out.append((s, VNat(x.p), None))
        for s in I.assume(st.copy(), ("cmp", "ge", y.p - x.p - 1)):
            out.append((s, VNat(y.p), None))
        return out
    return [(st, VTop("max"), None)]


def h_bool_then(I, st, fr, e, c, a):
    b = deref(I, st, a[0])
    f = b.f if isinstance(b, VBool) else ("unk", ("then", e.get("sp", "?")))
    yes, no = I.branch(st, f)
    out = [(s, NONE, None) for s in no]
    for s in yes:
        for (s2, r, ctl) in I.apply_value(a[1], [], s, fr, e):
            out.append((s2, some(r) if ctl is None else r, ctl))
    return out


def h_bool_then_some(I, st, fr, e, c, a):
    b = deref(I, st, a[0])
    f = b.f if isinstance(b, VBool) else ("unk", ("then_some", e.get("sp", "?")))
    yes, no = I.branch(st, f)
    return [(s, NONE, None) for s in no] + [(s, some(a[1]), None) for s in yes]


def h_opt_and(I, st, fr, e, c, a):
    out = []
    for (s, tag, pl, _) in _opt_cases(I, st, a[0]):
        out.append((s, a[1] if tag in ("Some", "Ok") else NONE, None))
    return out


def h_opt_or(I, st, fr, e, c, a):
    out = []
    for (s, tag, pl, orig) in _opt_cases(I, st, a[0]):
        out.append((s, orig if tag in ("Some", "Ok") else a[1], None))
    return out


def h_opt_zip(I, st, fr, e, c, a):
    out = []
    for (s, tag, pl, _) in _opt_cases(I, st, a[0]):
        if tag not in ("Some", "Ok"):
            out.append((s, NONE, None))
            continue
        for (s2, tag2, pl2, _) in _opt_cases(I, s, a[1]):
            out.append((s2, some(VTup([pl, pl2])) if tag2 in ("Some", "Ok") else NONE, None))
    return out


SIMPLE.update({
    "core::bool::<impl bool>::then": h_bool_then,
    "core::bool::<impl bool>::then_some": h_bool_then_some,
    "std::option::Option::<T>::and": h_opt_and,
    "std::option::Option::<T>::or": h_opt_or,
    "std::option::Option::<T>::zip": h_opt_zip,
    "std::option::Option::<T>::is_some_and": h_is_some_and,
    "std::result::Result::<T, E>::is_ok_and": h_is_some_and,
    "std::option::Option::<T>::is_none_or": h_is_none_or,
    "std::option::Option::<T>::is_some": h_is_some,
    "std::option::Option::<T>::is_none": h_is_none,
    "std::result::Result::<T, E>::is_ok": h_is_some,
    "std::result::Result::<T, E>::is_err": h_is_none,
    "std::option::Option::<T>::unwrap_or_else": h_unwrap_or_else,
    "std::result::Result::<T, E>::unwrap_or_else": h_unwrap_or_else,
    "std::option::Option::<T>::map_or_else": h_map_or_else,
    "std::result::Result::<T, E>::map_or_else": h_map_or_else,
    "std::result::Result::<T, E>::map_or": h_map_or,
    "std::option::Option::<T>::and_then": h_and_then,
    "std::result::Result::<T, E>::and_then": h_and_then,
    "std::option::Option::<T>::or_else": h_or_else,
    "std::option::Option::<T>::filter": h_opt_filter,
    "std::result::Result::<T, E>::ok": h_ok,
    "std::result::Result::<T, E>::map_err": h_map_err,
    "std::option::Option::<T>::ok_or_else": h_ok_or,
    "std::option::Option::<T>::unwrap_or_default": h_unwrap_or_default,
    "std::result::Result::<T, E>::unwrap_or": h_unwrap_or,
    "std::option::Option::<&T>::cloned": h_identity,
    "std::option::Option::<&T>::copied": h_identity,
    "std::option::Option::<T>::as_ref": h_identity,
    "core::num::<impl usize>::saturating_sub": h_saturating_sub,
    "core::num::<impl usize>::checked_sub": h_checked_sub,
    "core::num::<impl usize>::min": h_min,
    "core::num::<impl usize>::max": h_max2,
    "std::cmp::Ord::min": h_min,
    "std::cmp::Ord::max": h_max2,
    "std::cmp::min": h_min,
    "std::cmp::max": h_max2,
})
