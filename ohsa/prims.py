"""The array contract (trusted axioms): transfer functions for every method of the traits
`Array`, `OrdArray`, `NaturalArray`.  Each gives the panic precondition (an obligation at the
call site) and the result's symbolic term.  Transcribed from src/array/traits.rs."""
from poly import Poly, as_poly, show_poly
from values import *

ARRAY_TRAITS = {"array::traits::Array", "array::traits::OrdArray", "array::traits::NaturalArray"}

AXIOMS = {
    "empty": "len = 0",
    "len": "length",
    "is_empty": "len == 0",
    "from_slice": "identity on contents",
    "concatenate": "len adds; contents juxtaposed",
    "fill": "fill(x,n): len n, every element x",
    "get": "pre i < len",
    "get_range": "pre start <= end <= len; len = end-start",
    "gather": "pre ub(idx) <= len(self); len = len(idx); elements of self",
    "scatter": "pre len(idx)=len(self), ub(idx) <= n; len = n",
    "scatter_assign": "pre len(ixs)=len(values), ub(ixs) <= len(self); len unchanged",
    "scatter_assign_constant": "pre ub(ixs) <= len(self); len unchanged",
    "argsort": "permutation of 0..len",
    "sort_by": "gather by argsort of key: pre len(key) <= len(self)... len = len(key)",
    "max": "None iff len = 0; else the greatest element",
    "cumulative_sum": "len+1, monotone, first 0, last = sum",
    "sum": "sum of elements",
    "arange": "pre start <= stop; len = stop-start; elements start..stop",
    "repeat": "pre len(self)=len(x); len = sum(self); elements of x",
    "quot_rem": "pre d != 0",
    "mul_constant_add": "pre equal lengths",
    "connected_components": "pre equal lengths, ub <= n; result len n, values < k, k <= n",
    "segmented_sum": "pre sum(self)=len(x); len = len(self); sum = sum(x)",
    "segmented_arange": "len = sum(self); element < its segment size",
    "bincount": "pre ub(self) <= size; len = size; sum = len(self); each count <= len(self)",
    "sparse_bincount": "two arrays of equal length u <= len(self); keys are elements of self; counts <= len(self)",
    "zero": "indices of zero elements: len <= len(self), values < len(self)",
    "scatter_sub_assign": "pre len(ixs)=len(rhs), ub(ixs) <= len(self), no underflow; len unchanged",
}


def _seq(I, st, v):
    while isinstance(v, VMutRef):
        v = I.read_place(st, v.place)
    if isinstance(v, VSeq):
        return v.t
    if isinstance(v, VRec) and set(v.f) == {"0"}:
        return _seq(I, st, v.f["0"])
    if isinstance(v, VTop):
        # unknown array: a fresh opaque leaf (no facts)
        return leaf("top:" + v.why)
    raise TypeError(f"expected an array value, got {v!r}")


def _nat(v):
    if isinstance(v, VNat):
        return v.p
    if isinstance(v, VTop):
        return Poly.atom(("top", v.why))
    if isinstance(v, VUser):
        return Poly.atom(("lbl", v.key))
    return Poly.atom(("val", repr(v)))


def p_empty(I, st, fr, e, c, a):
    return [(st, VSeq(EMPTY), None)]


def p_len(I, st, fr, e, c, a):
    return [(st, VNat(t_len(_seq(I, st, a[0]))), None)]


def p_is_empty(I, st, fr, e, c, a):
    return [(st, VBool(("cmp", "eq", t_len(_seq(I, st, a[0])))), None)]


def p_from_slice(I, st, fr, e, c, a):
    return [(st, VSeq(_seq(I, st, a[0])), None)]


def p_concatenate(I, st, fr, e, c, a):
    return [(st, VSeq(mk_concat([_seq(I, st, a[0]), _seq(I, st, a[1])])), None)]


def p_fill(I, st, fr, e, c, a):
    return [(st, VSeq(("fill", _nat(a[0]), _nat(a[1]))), None)]


def elem_is_nat(I, e):
    tyd = I.facts.ty(e["ty"])
    s = tyd["s"]
    return s.endswith("::I") or s == "usize"


def p_get(I, st, fr, e, c, a):
    x = _seq(I, st, a[0])
    i = _nat(a[1])
    I.pre_ge(st, fr, e, "get", t_len(x), i + 1, f"{show_poly(i)} < len({show_term(x)})")
    if not elem_is_nat(I, e):
        return [(st, VUser(("get", x, i)), None)]
    return [(st, VNat(get_value(st, x, i)), None)]


def get_value(st, x, i):
    if x[0] == "cumsum":
        if st.eq(i, t_len(x[1])):
            return t_sum(x[1])
        if st.eq(i, 0):
            return Poly.const(0)
    if x[0] == "arange":
        return x[1] + i
    if x[0] == "fill":
        return x[1]
    at = Poly.atom(("get", x, i))
    for b in ubs(st, x):
        st.add_ge(b - at - 1)
    if x[0] == "cumsum" or st.has_prop("mono", x):
        # monotone: relate to the other element reads of the same array
        for pr in st.props:
            if pr[0] == "getatom" and pr[1] == x and pr[2] != i:
                j = pr[2]
                other = Poly.atom(("get", x, j))
                if st.ge(j, i):
                    st.add_ge(other - at)
                elif st.ge(i, j):
                    st.add_ge(at - other)
        st.add_prop("getatom", x, i)
    return at


def _range(I, st, x, r):
    n = t_len(x)
    if isinstance(r, VRange):
        lo = r.lo.p if isinstance(r.lo, VNat) else Poly.const(0)
        hi = r.hi.p if isinstance(r.hi, VNat) else n
        if r.incl:
            hi = hi + 1
        return lo, hi
    if isinstance(r, VRec) and r.ty.endswith("RangeFull"):
        return Poly.const(0), n
    if isinstance(r, VRec):
        f = r.f
        lo = f["start"].p if isinstance(f.get("start"), VNat) else Poly.const(0)
        hi = f["end"].p if isinstance(f.get("end"), VNat) else n
        if r.ty.endswith("RangeInclusive") or r.ty.endswith("RangeToInclusive"):
            hi = hi + 1
        return lo, hi
    if isinstance(r, VUser) and isinstance(r.key, str) and r.key.startswith("range:"):
        # a generic RangeBounds parameter: its clamped bounds are opaque (to_range decides them; C07 to_range spec)
        lo, hi = Poly.atom(("rangelo", r.key, x)), Poly.atom(("rangehi", r.key, x))
        return lo, hi
    raise TypeError("range value " + repr(r))


def p_set_range(I, st, fr, e, c, a):
    """self[lo..hi] = v (documented: 'Write to a contiguous range of data in an array')."""
    recv = a[0]
    x = _seq(I, st, recv)
    lo, hi = _range(I, st, x, a[1])
    v = _seq(I, st, a[2])
    n = t_len(x)
    I.pre_ge(st, fr, e, "set_range", hi, lo, f"{show_poly(lo)} <= {show_poly(hi)}")
    I.pre_ge(st, fr, e, "set_range", n, hi, f"{show_poly(hi)} <= len({show_term(x)})")
    I.pre_eq(st, fr, e, "set_range", hi - lo, t_len(v))
    new = mk_concat([mk_slice(st, x, Poly.const(0), lo), v, mk_slice(st, x, hi, n)])
    if isinstance(recv, VMutRef):
        I.write_place(st, recv.place, _rewrap_seq(I, st, recv, new))
    return [(st, UNIT, None)]


def _rewrap_seq(I, st, recv, term):
    cur = I.read_place(st, recv.place)
    if isinstance(cur, VRec) and set(cur.f) == {"0"}:
        return cur.with_field("0", VSeq(term))
    return VSeq(term)


def p_get_range(I, st, fr, e, c, a):
    x = _seq(I, st, a[0])
    lo, hi = _range(I, st, x, a[1])
    n = t_len(x)
    I.pre_ge(st, fr, e, "get_range", hi, lo, f"{show_poly(lo)} <= {show_poly(hi)}")
    I.pre_ge(st, fr, e, "get_range", n, hi, f"{show_poly(hi)} <= len({show_term(x)})")
    if not lo.t and st.eq(hi, n):
        return [(st, VSeq(x), None)]
    return [(st, VSeq(mk_slice(st, x, lo, hi)), None)]


def mk_slice(st, x, lo, hi):
    if x[0] == "arange":
        return ("arange", x[1] + lo, x[1] + hi)
    if x[0] in ("concat", "gather", "shift"):
        # a window of a concatenation / re-indexing: the same normal form as composing with arange(lo, hi)
        import values
        return values._degenerate(st, ("slice", x, lo, hi))
    return ("slice", x, lo, hi)


def p_gather(I, st, fr, e, c, a):
    x = _seq(I, st, a[0])
    idx = _seq(I, st, a[1])
    I.pre_bound(st, fr, e, "gather", idx, t_len(x))
    return [(st, VSeq(mk_gather(st, x, idx)), None)]


def p_scatter(I, st, fr, e, c, a):
    v = _seq(I, st, a[0])
    idx = _seq(I, st, a[1])
    n = _nat(a[2])
    I.pre_eq(st, fr, e, "scatter", t_len(idx), t_len(v))
    I.pre_bound(st, fr, e, "scatter", idx, n)
    return [(st, VSeq(("scatter", v, idx, n)), None)]


def _recv_place(I, st, v):
    if not isinstance(v, VMutRef):
        raise TypeError("expected &mut receiver")
    place = v.place
    cur = I.read_place(st, place)
    while isinstance(cur, VMutRef):
        place = cur.place
        cur = I.read_place(st, place)
    return place, cur


def p_scatter_assign(I, st, fr, e, c, a):
    place, cur = _recv_place(I, st, a[0])
    x = _seq(I, st, cur)
    ixs = _seq(I, st, a[1])
    vals = _seq(I, st, a[2])
    I.pre_eq(st, fr, e, "scatter_assign", t_len(ixs), t_len(vals))
    I.pre_bound(st, fr, e, "scatter_assign", ixs, t_len(x))
    I.write_place(st, place, _rewrap(cur, ("sa", x, ixs, vals)))
    return [(st, UNIT, None)]


def _rewrap(cur, term):
    return VSeq(term)


def p_scatter_assign_constant(I, st, fr, e, c, a):
    place, cur = _recv_place(I, st, a[0])
    x = _seq(I, st, cur)
    ixs = _seq(I, st, a[1])
    I.pre_bound(st, fr, e, "scatter_assign_constant", ixs, t_len(x))
    I.write_place(st, place, VSeq(("sac", x, ixs, _nat(a[2]))))
    return [(st, UNIT, None)]


def p_scatter_sub_assign(I, st, fr, e, c, a):
    place, cur = _recv_place(I, st, a[0])
    x = _seq(I, st, cur)
    ixs = _seq(I, st, a[1])
    rhs = _seq(I, st, a[2])
    I.pre_eq(st, fr, e, "scatter_sub_assign", t_len(ixs), t_len(rhs))
    I.pre_bound(st, fr, e, "scatter_sub_assign", ixs, t_len(x))
    import rules_terms
    r = rules_terms.prove_scatter_sub(I, st, fr, x, ixs, rhs)
    if not r and st.eq(t_len(ixs), 0):
        r = "nothing-to-subtract"
    I.oblige("PRE", fr, e, "scatter_sub_assign", "no underflow: self[ixs[i]] >= rhs[i]", bool(r), r or "",
             detail="" if r else I.describe(st))
    I.write_place(st, place, VSeq(("ssa", x, ixs, rhs)))
    return [(st, UNIT, None)]


def p_argsort(I, st, fr, e, c, a):
    return [(st, VSeq(("argsort", _seq(I, st, a[0]))), None)]


def p_sort_by(I, st, fr, e, c, a):
    x = _seq(I, st, a[0])
    key = _seq(I, st, a[1])
    # self.gather(key.argsort()): indices < len(key) must be < len(self)
    I.pre_ge(st, fr, e, "sort_by", t_len(x), t_len(key), f"len(key) <= len(self)")
    return [(st, VSeq(mk_gather(st, x, ("argsort", key))), None)]


def p_max(I, st, fr, e, c, a):
    x = _seq(I, st, a[0])
    n = t_len(x)
    out = []
    for s in I.assume(st.copy(), ("cmp", "eq", n)):
        out.append((s, NONE, None))
    for s in I.assume(st.copy(), ("cmp", "ge", n - 1)):
        m = Poly.atom(("max", x))
        for b in ubs(s, x):
            s.add_ge(b - m - 1)
        s.add_bound(x, m + 1)
        out.append((s, some(VNat(m)), None))
    return out


def p_cumulative_sum(I, st, fr, e, c, a):
    return [(st, VSeq(("cumsum", _seq(I, st, a[0]))), None)]


def p_sum(I, st, fr, e, c, a):
    return [(st, VNat(t_sum(_seq(I, st, a[0]))), None)]


def p_arange(I, st, fr, e, c, a):
    lo, hi = _nat(a[0]), _nat(a[1])
    I.pre_ge(st, fr, e, "arange", hi, lo, f"{show_poly(lo)} <= {show_poly(hi)}")
    return [(st, VSeq(mk_arange(lo, hi)), None)]


def p_repeat(I, st, fr, e, c, a):
    k = _seq(I, st, a[0])
    x = _seq(I, st, a[1])
    I.pre_eq(st, fr, e, "repeat", t_len(k), t_len(x))
    return [(st, VSeq(("repeat", k, x)), None)]


def p_quot_rem(I, st, fr, e, c, a):
    x = _seq(I, st, a[0])
    d = _nat(a[1])
    I.pre_ge(st, fr, e, "quot_rem", d, 1, f"{show_poly(d)} != 0")
    return [(st, VTup([VSeq(("quot", x, d)), VSeq(("rem", x, d))]), None)]


def p_mul_constant_add(I, st, fr, e, c, a):
    x = _seq(I, st, a[0])
    k = _nat(a[1])
    y = _seq(I, st, a[2])
    I.pre_eq(st, fr, e, "mul_constant_add", t_len(x), t_len(y))
    return [(st, VSeq(("mulcadd", x, k, y)), None)]


def p_connected_components(I, st, fr, e, c, a):
    s_ = _seq(I, st, a[0])
    t_ = _seq(I, st, a[1])
    n = _nat(a[2])
    # CC-REFL: pairs removed by a filter whose negation forces v == w are reflexive; dropping them leaves the
    # connected components unchanged
    if s_[0] == "sel" and t_[0] == "sel" and s_[2] == t_[2] and s_[2][1] == ("zip", s_[1], t_[1]):
        removed = I.assume(st.copy(), f_not(s_[2][2]))
        if all(s2.eq(Poly.atom(("elem", s_[1])), Poly.atom(("elem", t_[1]))) for s2 in removed):
            import rules_terms
            rules_terms.USES["CC-REFL"] = rules_terms.USES.get("CC-REFL", 0) + 1
            s_, t_ = s_[1], t_[1]
    I.pre_eq(st, fr, e, "connected_components", t_len(s_), t_len(t_))
    I.pre_bound(st, fr, e, "connected_components", s_, n)
    I.pre_bound(st, fr, e, "connected_components", t_, n)
    q = Poly.atom(("ncomp", s_, t_, n))
    st.add_ge(n - q)
    return [(st, VTup([VSeq(("cc", s_, t_, n)), VNat(q)]), None)]


def p_segmented_sum(I, st, fr, e, c, a):
    k = _seq(I, st, a[0])
    x = _seq(I, st, a[1])
    I.pre_eq(st, fr, e, "segmented_sum", t_sum(k), t_len(x), f"sum({show_term(k)}) == len({show_term(x)})")
    return [(st, VSeq(("segsum", k, x)), None)]


def p_segmented_arange(I, st, fr, e, c, a):
    return [(st, VSeq(("segarange", _seq(I, st, a[0]))), None)]


def p_bincount(I, st, fr, e, c, a):
    x = _seq(I, st, a[0])
    n = _nat(a[1])
    I.pre_bound(st, fr, e, "bincount", x, n)
    return [(st, VSeq(("bincount", x, n)), None)]


def p_sparse_bincount(I, st, fr, e, c, a):
    x = _seq(I, st, a[0])
    k, cn = ("spkeys", x), ("spcounts", x)
    term_facts(st, k)
    if st.ge(t_len(x), 1):
        st.add_ge(Poly.atom(("nuniq", x)) - 1)      # a non-empty array has at least one distinct value
    return [(st, VTup([VSeq(k), VSeq(cn)]), None)]


def p_zero(I, st, fr, e, c, a):
    x = _seq(I, st, a[0])
    z = ("zero", x)
    term_facts(st, z)
    return [(st, VSeq(z), None)]


def p_to_range(I, st, fr, e, c, a):
    x = _seq(I, st, a[0])
    lo, hi = _range(I, st, x, a[1])
    return [(st, VRange(VNat(lo), VNat(hi)), None)]


TABLE = {
    "empty": p_empty, "len": p_len, "is_empty": p_is_empty, "from_slice": p_from_slice,
    "concatenate": p_concatenate, "fill": p_fill, "get": p_get, "get_range": p_get_range,
    "gather": p_gather, "scatter": p_scatter, "scatter_assign": p_scatter_assign,
    "scatter_assign_constant": p_scatter_assign_constant, "argsort": p_argsort, "sort_by": p_sort_by,
    "max": p_max, "cumulative_sum": p_cumulative_sum, "sum": p_sum, "arange": p_arange,
    "repeat": p_repeat, "quot_rem": p_quot_rem, "mul_constant_add": p_mul_constant_add,
    "connected_components": p_connected_components, "segmented_sum": p_segmented_sum,
    "segmented_arange": p_segmented_arange, "bincount": p_bincount, "sparse_bincount": p_sparse_bincount,
    "zero": p_zero, "scatter_sub_assign": p_scatter_sub_assign, "to_range": p_to_range, "set_range": p_set_range,
}
