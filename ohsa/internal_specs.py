"""Result specifications of crate-private helpers that carry a documented meaning of their own (checked wherever the
helper is called while a public entry point is analysed).  A helper that is renamed or inlined simply has no spec any
more: these add obligations, they are never required to exist."""
from poly import Poly, as_poly, show_poly
from values import *
import inv


def check(I, fn, vals, outs, fr, e):
    p = fn["path"]
    if p.endswith("strict::graph::converse"):
        converse_spec(I, fn, vals, outs, fr, e)
    if p.endswith("strict::graph::node_adjacency_from_incidence"):
        incidence_roles(I, fn, vals, outs, fr, e)


def _deref(I, st, v):
    while isinstance(v, VMutRef):
        v = I.read_place(st, v.place)
    return v


def converse_spec(I, fn, vals, outs, fr, e):
    """converse(r : X -> Q*) : Q -> X*  — doc comment of the function: the list at q holds every x with q in r(x), as many
    times as q occurs there, in the (stable) order of x.  As arrays: sizes = bincount of r's values over Q, values = the
    segment number of every entry of r re-indexed along the sorting permutation of r's values."""
    for (st, v, c) in outs:
        r = _deref(I, st, vals[0])
        if not (isinstance(r, VRec) and r.ty == inv.IC and isinstance(v, VRec) and v.ty == inv.IC):
            continue
        sizes = r.f["sources"].f["table"].t
        rv = r.f["values"].f["table"].t
        rt = r.f["values"].f["target"].p
        seg = ("repeat", sizes, mk_arange(0, t_len(sizes)))
        want_vals = mk_gather(st, seg, ("argsort", rv))
        want_sizes = ("bincount", rv, rt)
        got_vals = v.f["values"].f["table"].t
        got_sizes = v.f["sources"].f["table"].t
        node = {"sp": fn["sp"]}
        ok1 = terms_equal(st, got_sizes, want_sizes)
        I.oblige("ENS", fr, node, "converse: one segment per element of Q, sized by its number of occurrences",
                 f"sizes ≡ bincount(r.values, |Q|): got {show_term(got_sizes)[:160]}", ok1, "callee-spec" if ok1 else "",
                 detail="" if ok1 else I.describe(st))
        ok2 = terms_equal(st, got_vals, want_vals)
        I.oblige("ENS", fr, node, "converse: the x of every pair (x, q), grouped by q in stable order",
                 f"values ≡ segment-numbers re-indexed along argsort(r.values): got {show_term(got_vals)[:200]}", ok2,
                 "callee-spec" if ok2 else "", detail="" if ok2 else I.describe(st))


def _value_leaves(v, out):
    import spec_checks
    if isinstance(v, VSeq):
        spec_checks.leaves_of(v.t, out)
    elif isinstance(v, VNat):
        spec_checks.leaves_of(v.p, out)
    elif isinstance(v, VRec):
        for x in v.f.values():
            _value_leaves(x, out)
    elif isinstance(v, VTup):
        for x in v.items:
            _value_leaves(x, out)


def _role(name):
    parts = name.split(".")
    return {"s": "source", "t": "target"}.get(next((q for q in parts[1:] if q in ("s", "t")), None))


def incidence_roles(I, fn, vals, outs, fr, e):
    """node_adjacency_from_incidence(s, t): `adjacency(w)` = the nodes reachable in ONE STEP FROM w (doc comment), i.e.
    through a hyperedge that has w among its sources: the first argument is source incidence, the second target
    incidence.  Decided by provenance: which incidence fields (`.s.` / `.t.`) of the entry's arguments each argument is
    built from; an argument built from neither is not judged."""
    for (st, v, c) in outs[:1]:
        for ix, want in ((0, "source"), (1, "target")):
            leaves = set()
            _value_leaves(_deref(I, st, vals[ix]), leaves)
            roles = {_role(x) for x in leaves if isinstance(x, str)} - {None}
            if not roles:
                continue
            ok = roles == {want}
            I.oblige("ENS", fr, {"sp": e.get("sp", fn["sp"])},
                     f"node adjacency: argument {ix + 1} is the {want} incidence",
                     f"built from {want} incidence fields only: got fields of roles {sorted(roles)}", ok,
                     "callee-spec" if ok else "", detail="" if ok else I.describe(st))
