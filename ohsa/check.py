#!/usr/bin/env python3
"""/verif/check <Cnn> [--tier quick|thorough] [--replay FILE]

Decides the clauses of property Cnn (see DESIGN.md §7) on /repo's current working tree:
 1. exports the type-checked program with the ohx driver (cached by a hash of the tree),
 2. runs the analyses (shapecheck over every public entry point, structural rules),
 3. selects the obligations / rule instances that belong to the property,
 4. writes evidence/<Cnn>.json and prints KNOWN-FINDING / VIOLATION lines.
Exit status: 0 held, 1 violation, 2 analysis error (nothing decided)."""
import argparse
import fcntl
import hashlib
import json
import os
import subprocess
import sys
import time

HERE = os.path.dirname(os.path.abspath(__file__))
VERIF = os.path.dirname(HERE)
REPO = os.environ.get("OHSA_REPO", "/repo")
CACHE = os.environ.get("OHSA_CACHE", os.path.join(VERIF, ".cache"))
sys.path.insert(0, HERE)


def sha_tree():
    h = hashlib.sha256()
    files = []
    for root in ("src",):
        for dp, dn, fn in os.walk(os.path.join(REPO, root)):
            dn.sort()
            for f in sorted(fn):
                files.append(os.path.join(dp, f))
    for f in ("Cargo.toml", "Cargo.lock", "README.md"):
        files.append(os.path.join(REPO, f))
    for f in sorted(files):
        h.update(f.encode())
        try:
            with open(f, "rb") as fh:
                h.update(fh.read())
        except OSError:
            h.update(b"<missing>")
    # the analyser itself
    for f in sorted(os.listdir(HERE)):
        if f.endswith(".py") or f.endswith(".txt"):
            with open(os.path.join(HERE, f), "rb") as fh:
                h.update(f.encode())
                h.update(fh.read())
    drv = os.path.join(VERIF, "ohx", "target", "release", "ohx")
    try:
        stt = os.stat(drv)
        h.update(f"{stt.st_size}".encode())
    except OSError:
        h.update(b"nodriver")
    return h.hexdigest()[:24]


def ensure_analysis(tier):
    """Returns the analysis result dict for the current tree (computing it if needed)."""
    os.makedirs(CACHE, exist_ok=True)
    key = sha_tree()
    d = os.path.join(CACHE, key)
    lock = open(os.path.join(CACHE, "lock"), "w")
    fcntl.flock(lock, fcntl.LOCK_EX)
    try:
        res_path = os.path.join(d, "analysis.json")
        if os.path.exists(res_path):
            with open(res_path) as fh:
                r = json.load(fh)
            if tier == "quick" or r.get("has_thorough"):
                r["cached"] = True
                return r
        # drop stale cache entries (disk is limited)
        for old in os.listdir(CACHE):
            p = os.path.join(CACHE, old)
            if os.path.isdir(p) and old != key:
                subprocess.call(["rm", "-rf", p])
        os.makedirs(d, exist_ok=True)
        t0 = time.time()
        cfgs = ["default", "serde"]
        for cfg in cfgs:
            rc = subprocess.run([os.path.join(VERIF, "bin", "export_facts.sh"), REPO, d, cfg],
                                capture_output=True, text=True)
            if rc.returncode != 0:
                return {"error": "export failed (" + cfg + "): " + (rc.stderr or rc.stdout)[-1500:]}
        import analysis
        r = analysis.run(d, tier)
        r["export_and_analysis_s"] = round(time.time() - t0, 2)
        r["tree"] = key
        r["has_thorough"] = (tier == "thorough")
        with open(res_path, "w") as fh:
            json.dump(r, fh)
        r["cached"] = False
        return r
    finally:
        fcntl.flock(lock, fcntl.LOCK_UN)
        lock.close()


def main():
    ap = argparse.ArgumentParser()
    ap.add_argument("prop")
    ap.add_argument("--tier", default=os.environ.get("VERIF_TIER", "quick"), choices=["quick", "thorough"])
    ap.add_argument("--replay")
    args = ap.parse_args()
    t0 = time.time()
    import properties
    if args.prop == "ALL":
        # development aid (dev/equiv.py, dev/sweep_seeds.py): every property from one analysis, one process
        res = ensure_analysis(args.tier)
        if "error" in res:
            print("ANALYSIS-ERROR:", res["error"])
            return 2
        import report
        worst = 0
        for p_ in sorted(properties.PROPS):
            print("@@ " + p_)
            rc = report.decide(p_, args.tier, res, time.time(), None)
            print(f"@@rc {p_} {rc}")
            worst = max(worst, rc)
        return worst
    if args.prop not in properties.PROPS:
        print(f"ANALYSIS-ERROR: unknown or unclaimed property {args.prop}")
        return 2
    res = ensure_analysis(args.tier)
    if "error" in res:
        print("ANALYSIS-ERROR:", res["error"])
        return 2
    import report
    if args.replay:
        return report.replay(args.prop, args.replay, res)
    extra = None
    if args.tier == "thorough" and not os.environ.get("OHSA_NO_SELFTEST"):
        import selftest
        extra = selftest.run(args.prop)
    return report.decide(args.prop, args.tier, res, t0, extra)


if __name__ == "__main__":
    sys.exit(main())
