"""Floors: numbers counted on the pinned (repaired) tree.  Exact rule-instance floors live with
the rules; these are sanity floors (about half of the pinned count) for the bulk inventory, so
that e.g. replacing unwraps by `?` is not an error, while an analysis that silently sees only
part of the program fails closed."""
GLOBAL = {"body_owners": 220, "unwrap_expect": 40}

FLOORS = {
    "C01": {"entries": 4, "obligations": 60},
    "C02": {"entries": 6, "obligations": 20},
    "C04": {"entries": 4, "obligations": 4},
    "C05": {"entries": 40, "obligations": 400},
    "C06": {"entries": 20, "obligations": 40},
    "C07": {"entries": 25, "obligations": 50},
    "C08": {"entries": 20, "obligations": 100},
    "C12": {"entries": 4, "obligations": 100},
    "C14": {"entries": 3, "obligations": 100},
    "C15": {"entries": 2, "obligations": 60},
    "C16": {"entries": 1, "obligations": 80},
    "C17": {"entries": 5, "obligations": 40},
    "C18": {"entries": 4, "obligations": 200},
    "C09": {"entries": 3, "obligations": 60},
    "C10": {"entries": 15, "obligations": 200},
    "C11": {"entries": 25, "obligations": 200},
    "C13": {"entries": 2, "obligations": 60},
    "C19": {"entries": 15, "obligations": 80},
    "C20": {"entries": 8, "obligations": 400},
}
