"""The oracle: declared result shapes (ENS), acceptance conditions (ACC) and rejection
conditions (REJ) of the public operations, written from the property statements and the crate
documentation — never from the implementation's output.  Checked on every symbolic outcome of
the analysed entry point."""
from poly import Poly, as_poly, show_poly
from values import *
from interp import Frame
import inv

FFN = "finite_function::arrow::FiniteFunction"
S_OH = "strict::open_hypergraph::arrow::OpenHypergraph"
S_H = "strict::hypergraph::object::Hypergraph"
ICN = "indexed_coproduct::arrow::IndexedCoproduct"


def deref_args(res):
    out = {}
    from shapecheck import param_name
    st0 = res["st0"]
    for i, (p, a) in enumerate(zip(res["fn"]["params"], res["args"])):
        v = a
        nm = param_name(p, i)
        if isinstance(v, VMutRef):
            v = res.get("pre_muts", {}).get(nm, st0.env[v.place[0]])
        out[nm] = v
    return out


def is_fail(v):
    return isinstance(v, VEnum) and v.variant in ("None", "Err")


def payload(v):
    if isinstance(v, VEnum) and v.variant in ("Some", "Ok"):
        return v.payload[0]
    return v


def tab(ff):
    return ff.f["table"].t


def tgt(ff):
    return ff.f["target"].p


def w_of(oh):
    return oh.f["h"].f["w"].f["0"].t


def src_type(st, oh):
    return mk_gather(st, normalise(st, w_of(oh)), normalise(st, tab(oh.f["s"])))


def tgt_type(st, oh):
    return mk_gather(st, normalise(st, w_of(oh)), normalise(st, tab(oh.f["t"])))


class Ctx:
    def __init__(self, sc, res):
        self.sc = sc
        self.I = sc.I
        self.res = res
        self.fr = Frame(res["fn"], None)
        self.node = {"sp": res["fn"]["sp"]}
        self.count = 0

    def ob(self, kind, what, goal, ok, st, method="spec", actual=None):
        self.count += 1
        status = None
        if not ok and kind == "ENS" and actual is not None and imprecise(actual):
            # the analysis summarised the value (loop invariant inference / unknown call result): the
            # declared shape can neither be confirmed nor refuted -> not decided (no alarm)
            status = "undecided"
        self.I.oblige(kind, self.fr, self.node, what, goal, ok, method if ok else "",
                      detail="" if ok else self.I.describe(st), status=status)

    def teq(self, st, what, a, b):
        ok = terms_equal(st, a, b)
        self.ob("ENS", what, f"{show_term(normalise(st, a))[:300]} ≡ {show_term(normalise(st, b))[:300]}", ok, st,
                actual=a)

    def teq_any(self, st, what, a, options):
        ok = any(terms_equal(st, a, b) for b in options)
        self.ob("ENS", what, f"{show_term(normalise(st, a))[:300]} ≡ one of " +
                " | ".join(show_term(normalise(st, b))[:200] for b in options), ok, st)

    def eq(self, st, what, a, b):
        a, b = as_poly(a), as_poly(b)
        ok = st.eq(a, b)
        if not ok:
            a2, b2 = normalise_poly(st, a), normalise_poly(st, b)
            ok = st.eq(a2, b2)
        self.ob("ENS", what, f"{show_poly(a)} == {show_poly(b)}", ok, st, actual=a)

    def acc(self, st, what, conds):
        """ACC: on a success outcome the documented acceptance condition is entailed."""
        for c in conds:
            if c[0] == "eq":
                self.ob("ACC", what, f"accepted ⇒ {show_poly(as_poly(c[1]))} == {show_poly(as_poly(c[2]))}",
                        st.eq(c[1], c[2]), st)
            elif c[0] == "bound":
                self.ob("ACC", what, f"accepted ⇒ ub({show_term(c[1])}) <= {show_poly(as_poly(c[2]))}",
                        prove_bound(st, c[1], c[2]), st)
            elif c[0] == "teq":
                self.ob("ACC", what, f"accepted ⇒ {show_term(c[1])[:200]} ≡ {show_term(c[2])[:200]}",
                        terms_equal(st, c[1], c[2]), st)

    def rej(self, st, what, conds):
        """REJ: a failure outcome is infeasible under the documented acceptance condition."""
        s = st.copy()
        feasible = True
        for c in conds:
            if c[0] == "eq":
                s.add_eq(as_poly(c[1]) - as_poly(c[2]))
                # the same equation over the normal forms of the terms it reads (empty operands, constant arrays)
                d = normalise_poly(s, as_poly(c[1]) - as_poly(c[2]))
                if isinstance(d, Poly):
                    s.add_eq(d)
            elif c[0] == "bound":
                s.add_bound(c[1], c[2])
                # every element (in particular the maximum) is below the bound
                s.add_ge(as_poly(c[2]) - Poly.atom(("max", c[1])) - 1)
            elif c[0] == "teq":
                na, nb = normalise(s, c[1]), normalise(s, c[2])
                if na != nb:
                    s.teq = s.teq + (((na, nb) if term_size(na) >= term_size(nb) else (nb, na)),)
                s.add_eq(t_len(c[1]) - t_len(c[2]))
                s.add_eq(t_sum(c[1]) - t_sum(c[2]))     # equal arrays have equal sums
        infeasible = s.infeasible()
        if not infeasible:
            for (a, b, _) in s.tne:
                if terms_equal(s, a, b):
                    infeasible = True
                    break
        txt = "; ".join(cond_txt(c) for c in conds)
        self.ob("REJ", what, f"rejects only when not({txt})", infeasible, st)


IMPRECISE = ("loopvar", "top", "top-iter", "user-iter", "maybe-updated", "prefix")


def imprecise(x):
    """Does a term / polynomial mention a leaf that stands for a summarised (not exactly known) value?"""
    if isinstance(x, Poly):
        return any(imprecise(a) for a in x.atoms())
    if isinstance(x, tuple):
        if x and isinstance(x[0], str) and x[0] in IMPRECISE:
            return True
        if len(x) == 2 and x[0] == "v" and isinstance(x[1], str) and x[1].startswith("top:"):
            return True
        return any(imprecise(y) for y in x)
    return False


def opaque(t):
    """Is the term itself (not merely a sub-term) a summarised value: a loop variable or an unknown call result?"""
    return isinstance(t, tuple) and len(t) == 2 and t[0] == "v" and (
        (isinstance(t[1], tuple) and t[1] and t[1][0] in IMPRECISE) or (isinstance(t[1], str) and t[1].startswith("top:")))


def cond_txt(c):
    if c[0] == "eq":
        return f"{show_poly(as_poly(c[1]))} == {show_poly(as_poly(c[2]))}"
    if c[0] == "bound":
        return f"ub({show_term(c[1])[:120]}) <= {show_poly(as_poly(c[2]))}"
    return f"{show_term(c[1])[:120]} ≡ {show_term(c[2])[:120]}"


def inv_conds(v):
    out = []
    for c in inv.conditions(v):
        if c[0] == "bound":
            out.append(("bound", c[1], c[2]))
        elif c[0] == "eq":
            out.append(("eq", c[1], c[2]))
    return out


SPECS = []


def spec(*suffixes):
    def deco(f):
        SPECS.append((suffixes, f))
        return f
    return deco


def run(sc, res):
    path = res["fn"]["path"]
    c = Ctx(sc, res)
    a = deref_args(res)
    names = []
    for suffixes, f in SPECS:
        if any(path.endswith(s) or (s.endswith("<") and s in path) for s in suffixes):
            names.append(f.__name__)
            for (st, v, ctl) in res["outs"]:
                try:
                    f(c, a, st, v)
                except (AttributeError, TypeError, KeyError, IndexError) as ex:
                    # the outcome contains a value the analysis only summarised (unknown call result): this clause
                    # can neither be confirmed nor refuted on this path
                    c.ob("ENS", f"declared result shape ({f.__name__})",
                         f"not applicable to a summarised value: {type(ex).__name__}: {ex}", False, st,
                         actual=("v", "top:unknown"))
    res["spec"] = names


# ------------------------------------------------------------------ finite functions

@spec(f"{FFN}::<K>::new")
def ff_new(c, a, st, v):
    want = VRec(inv.FF, {"table": a["table"], "target": a["target"]})
    if is_fail(v):
        c.rej(st, "FiniteFunction::new", inv_conds(want))
    else:
        c.acc(st, "FiniteFunction::new", inv_conds(want))
        r = payload(v)
        c.teq(st, "new: table kept", tab(r), a["table"].t)
        c.eq(st, "new: target kept", tgt(r), a["target"].p)


@spec(f"<{FFN}<K> as category::traits::Arrow>::compose", f"<&{FFN}<K> as std::ops::Shr<&{FFN}<K>>>::shr")
def ff_compose(c, a, st, v):
    f, g = list(a.values())[:2]
    cond = [("eq", tgt(f), t_len(tab(g)))]
    if is_fail(v):
        c.rej(st, "compose defined iff codomain = domain", cond)
    else:
        r = payload(v)
        c.acc(st, "compose defined iff codomain = domain", cond)
        c.teq(st, "compose is pointwise application (gather)", tab(r), ("gather", tab(g), tab(f)))
        c.eq(st, "compose: codomain of the right map", tgt(r), tgt(g))


@spec(f"<{FFN}<K> as category::traits::Coproduct>::coproduct", f"<&{FFN}<K> as std::ops::Add<&{FFN}<K>>>::add")
def ff_coproduct(c, a, st, v):
    f, g = list(a.values())[:2]
    cond = [("eq", tgt(f), tgt(g))]
    if is_fail(v):
        c.rej(st, "coproduct defined iff codomains agree", cond)
    else:
        r = payload(v)
        c.acc(st, "coproduct defined iff codomains agree", cond)
        c.teq(st, "coproduct = concatenation", tab(r), mk_concat([tab(f), tab(g)]))
        c.eq(st, "coproduct codomain", tgt(r), tgt(f))


@spec(f"<{FFN}<K> as category::traits::Monoidal>::tensor", f"<&{FFN}<K> as std::ops::BitOr<&{FFN}<K>>>::bitor")
def ff_tensor(c, a, st, v):
    f, g = list(a.values())[:2]
    c.teq(st, "tensor = left table followed by right table shifted by the left codomain", tab(v),
          mk_concat([tab(f), mk_shift(tgt(f), tab(g))]))
    c.eq(st, "tensor codomain = sum", tgt(v), tgt(f) + tgt(g))


@spec(f"<{FFN}<K> as category::traits::Coproduct>::inj0")
def ff_inj0(c, a, st, v):
    x, y = a["a"].p, a["b"].p
    c.teq(st, "inj0 = 0..a", tab(v), mk_arange(0, x))
    c.eq(st, "inj0 codomain a+b", tgt(v), x + y)


@spec(f"<{FFN}<K> as category::traits::Coproduct>::inj1")
def ff_inj1(c, a, st, v):
    x, y = a["a"].p, a["b"].p
    c.teq(st, "inj1 = a..a+b", tab(v), mk_arange(x, x + y))
    c.eq(st, "inj1 codomain a+b", tgt(v), x + y)


@spec(f"<{FFN}<K> as category::traits::SymmetricMonoidal>::twist")
def ff_twist(c, a, st, v):
    x, y = a["a"].p, a["b"].p
    c.teq(st, "twist(a,b) = [b..a+b, 0..b]", tab(v), mk_concat([mk_arange(y, x + y), mk_arange(0, y)]))
    c.eq(st, "twist codomain a+b", tgt(v), x + y)


@spec(f"<{FFN}<K> as category::traits::Arrow>::identity")
def ff_identity(c, a, st, v):
    x = a["a"].p
    c.teq(st, "identity = 0..a", tab(v), mk_arange(0, x))
    c.eq(st, "identity codomain a", tgt(v), x)


@spec(f"<{FFN}<K> as category::traits::Coproduct>::initial")
def ff_initial(c, a, st, v):
    c.teq(st, "initial: empty table", tab(v), EMPTY)
    c.eq(st, "initial: codomain a", tgt(v), a["a"].p)


@spec(f"{FFN}::<K>::terminal")
def ff_terminal(c, a, st, v):
    c.teq(st, "terminal: a zeroes", tab(v), ("fill", Poly.const(0), a["a"].p))
    c.eq(st, "terminal: codomain 1", tgt(v), 1)


@spec(f"{FFN}::<K>::constant")
def ff_constant(c, a, st, v):
    c.teq(st, "constant: a copies of x", tab(v), ("fill", a["x"].p, a["a"].p))
    c.eq(st, "constant: codomain x+1+b", tgt(v), a["x"].p + a["b"].p + 1)


@spec(f"{FFN}::<K>::inject0")
def ff_inject0(c, a, st, v):
    f = a["self"]
    c.teq(st, "inject0 keeps the table", tab(v), tab(f))
    c.eq(st, "inject0 codomain", tgt(v), tgt(f) + a["b"].p)


@spec(f"{FFN}::<K>::inject1")
def ff_inject1(c, a, st, v):
    f = a["self"]
    c.teq(st, "inject1 shifts the table by a", tab(v), mk_shift(a["a"].p, tab(f)))
    c.eq(st, "inject1 codomain", tgt(v), tgt(f) + a["a"].p)


@spec(f"{FFN}::<K>::to_initial")
def ff_to_initial(c, a, st, v):
    c.teq(st, "to_initial: empty", tab(v), EMPTY)
    c.eq(st, "to_initial: same codomain", tgt(v), tgt(a["self"]))


@spec(f"{FFN}::<K>::coequalizer")
def ff_coequalizer(c, a, st, v):
    f, g = a["self"], a["other"]
    cond = [("eq", t_len(tab(f)), t_len(tab(g))), ("eq", tgt(f), tgt(g))]
    if is_fail(v):
        c.rej(st, "coequalizer defined iff parallel", cond)
    else:
        r = payload(v)
        c.acc(st, "coequalizer defined iff parallel", cond)
        c.teq(st, "coequalizer = connected components of the pairs (f(i), g(i)) over the codomain",
              tab(r), ("cc", tab(f), tab(g), tgt(f)))
        c.eq(st, "coequalizer: codomain = number of components", tgt(r), Poly.atom(("ncomp", tab(f), tab(g), tgt(f))))


@spec(f"{FFN}::<K>::injections")
def ff_injections(c, a, st, v):
    s_, x = a["self"], a["a"]
    cond = [("eq", tgt(x), t_len(tab(s_)))]
    if is_fail(v):
        c.rej(st, "injections defined iff a lands in the segments", cond)
    else:
        r = payload(v)
        c.acc(st, "injections defined iff a lands in the segments", cond)
        c.teq(st, "injections = block-wise injections of the sizes along a", tab(r), mk_inj(st, tab(s_), tab(x)))
        c.eq(st, "injections: codomain = total size", tgt(r), t_sum(tab(s_)))


@spec("semifinite::types::compose_semifinite",
      "impl std::ops::Shr<&semifinite::types::SemifiniteFunction<K, T>> for &finite_function::arrow::FiniteFunction<K>>::shr")
def semi_compose(c, a, st, v):
    f, g = list(a.values())[:2]
    cond = [("eq", tgt(f), t_len(g.f["0"].t))]
    if is_fail(v):
        c.rej(st, "compose_semifinite defined iff codomain = length", cond)
    else:
        r = payload(v)
        c.acc(st, "compose_semifinite defined iff codomain = length", cond)
        c.teq(st, "re-indexing = gather", r.f["0"].t, ("gather", g.f["0"].t, tab(f)))


@spec("finite_function::arrow::coequalizer_universal")
def coeq_universal(c, a, st, v):
    q, f = a["q"], a["f"]
    if is_fail(v):
        return
    r = payload(v)
    c.acc(st, "universal map exists only for matching lengths", [("eq", t_len(tab(q)), t_len(f.t))])
    # the returned map composes with q back to f (established by recomposition on the Some path)
    c.teq(st, "q ; u == f on the Some path", ("gather", r.t, tab(q)), f.t)
    c.eq(st, "universal map has one value per class", t_len(r.t), tgt(q))


# ------------------------------------------------------------------ segmented arrays

def ic_sizes(v):
    return tab(v.f["sources"])


@spec(f"{ICN}::<K, F>::new")
def ic_new(c, a, st, v):
    want = VRec(inv.IC, {"sources": a["sources"], "values": a["values"]})
    conds = [x for x in inv_conds(want) if x[0] == "eq"]
    if is_fail(v):
        c.rej(st, "IndexedCoproduct::new", conds)
    else:
        c.acc(st, "IndexedCoproduct::new", conds)


@spec(f"{ICN}::<K, F>::from_semifinite")
def ic_from_semifinite(c, a, st, v):
    sizes = a["sources"].f["0"].t
    n = inv.values_len(a["values"])
    conds = [("bound", sizes, n + 1), ("eq", t_sum(sizes), n)]
    if is_fail(v):
        c.rej(st, "IndexedCoproduct::from_semifinite", conds)
    else:
        r = payload(v)
        c.acc(st, "IndexedCoproduct::from_semifinite", conds)
        c.teq(st, "from_semifinite keeps the sizes", ic_sizes(r), sizes)


@spec(f"{ICN}::<K, F>::validate")
def ic_validate(c, a, st, v):
    conds = [x for x in inv_conds(a["self"]) if x[0] == "eq"]
    if is_fail(v):
        c.rej(st, "IndexedCoproduct::validate", conds)
    else:
        c.acc(st, "IndexedCoproduct::validate", conds)


@spec(f"{ICN}::<K, F>::singleton")
def ic_singleton(c, a, st, v):
    c.eq(st, "singleton: one segment", t_len(ic_sizes(v)), 1)
    c.teq(st, "singleton: the segment is all of values", ic_sizes(v), ("fill", inv.values_len(a["values"]), Poly.const(1)))


@spec(f"{ICN}::<K, F>::elements")
def ic_elements(c, a, st, v):
    n = inv.values_len(a["values"])
    c.teq(st, "elements: one unit segment per value", ic_sizes(v), ("fill", Poly.const(1), n))


@spec(f"{ICN}::<K, {FFN}<K>>::tensor", f"{ICN}::<K, F>::coproduct")
def ic_tensor(c, a, st, v):
    x, y = a["self"], a["other"]
    if is_fail(v):
        return
    r = payload(v)
    c.teq(st, "segment sizes are concatenated", ic_sizes(r), mk_concat([ic_sizes(x), ic_sizes(y)]))
    c.eq(st, "number of segments adds", t_len(ic_sizes(r)), t_len(ic_sizes(x)) + t_len(ic_sizes(y)))


@spec(f"{ICN}::<K, F>::map_indexes")
def ic_map_indexes(c, a, st, v):
    x, m = a["self"], a["x"]
    cond = [("eq", tgt(m), t_len(ic_sizes(x)))]
    if is_fail(v):
        c.rej(st, "map_indexes defined iff x lands in the segments", cond)
    else:
        r = payload(v)
        c.acc(st, "map_indexes defined iff x lands in the segments", cond)
        c.teq(st, "map_indexes: sizes re-indexed along x", ic_sizes(r), ("gather", ic_sizes(x), tab(m)))


@spec(f"{ICN}::<K, {FFN}<K>>::map_values", f"{ICN}::<K, {FFN}<K>>::map_semifinite")
def ic_map_values(c, a, st, v):
    x = a["self"]
    if is_fail(v):
        return
    r = payload(v)
    c.teq(st, "map_values leaves the sizes unchanged", ic_sizes(r), ic_sizes(x))


@spec(f"{ICN}::<K, {FFN}<K>>::flatmap", f"{ICN}::<K, F>::flatmap_sources")
def ic_flatmap(c, a, st, v):
    x = a["self"]
    c.eq(st, "flatmap keeps the number of segments", t_len(ic_sizes(v)), t_len(ic_sizes(x)))


@spec(f"{ICN}::<K, {FFN}<K>>::initial")
def ic_initial(c, a, st, v):
    c.eq(st, "initial: no segments", t_len(ic_sizes(v)), 0)


# ------------------------------------------------------------------ hypergraphs

@spec("operations::Operations::<K, O, A>::new", "operations::Operations::<K, O, A>::validate")
def ops_new(c, a, st, v):
    if "self" in a:
        want = a["self"]
    else:
        want = VRec(inv.OPS, {"x": a["x"], "a": a["a"], "b": a["b"]})
    conds = [x for x in inv_conds(want) if "INV_OPS" in str(x) or True]
    nx = inv.values_len(want.f["x"])
    conds = [("eq", t_len(ic_sizes(want.f["a"])), nx), ("eq", t_len(ic_sizes(want.f["b"])), nx)]
    if is_fail(v):
        c.rej(st, "Operations::new", conds)
    else:
        c.acc(st, "Operations::new", conds)


def h_conds(h):
    nx = inv.values_len(h.f["x"])
    nw = inv.values_len(h.f["w"])
    return [("eq", t_len(ic_sizes(h.f["s"])), nx), ("eq", t_len(ic_sizes(h.f["t"])), nx),
            ("eq", tgt(h.f["s"].f["values"]), nw), ("eq", tgt(h.f["t"].f["values"]), nw)]


@spec(f"{S_H}::<K, O, A>::new", f"{S_H}::<K, O, A>::validate")
def h_new(c, a, st, v):
    h = a["self"] if "self" in a else VRec(inv.SH, {"s": a["s"], "t": a["t"], "w": a["w"], "x": a["x"]})
    if is_fail(v):
        c.rej(st, "Hypergraph::new", h_conds(h))
    else:
        c.acc(st, "Hypergraph::new", h_conds(h))


@spec(f"{S_OH}::<K, O, A>::new", f"{S_OH}::<K, O, A>::validate")
def oh_new(c, a, st, v):
    f = a["self"] if "self" in a else VRec(inv.SOH, {"s": a["s"], "t": a["t"], "h": a["h"]})
    nw = inv.values_len(f.f["h"].f["w"])
    conds = h_conds(f.f["h"]) + [("eq", tgt(f.f["s"]), nw), ("eq", tgt(f.f["t"]), nw)]
    if is_fail(v):
        c.rej(st, "OpenHypergraph::new", conds)
    else:
        r = payload(v)
        c.acc(st, "OpenHypergraph::new", conds)
        c.teq(st, "new keeps the source leg", tab(r.f["s"]), tab(f.f["s"]))
        c.teq(st, "new keeps the target leg", tab(r.f["t"]), tab(f.f["t"]))


@spec(f"{S_OH}::<K, O, A>::spider", f"<{S_OH}<K, O, A> as category::spider::Spider<K>>::spider")
def oh_spider(c, a, st, v):
    s_, t_, w = a["s"], a["t"], a["w"]
    nw = inv.values_len(w)
    conds = [("eq", tgt(s_), nw), ("eq", tgt(t_), nw)]
    if is_fail(v):
        c.rej(st, "spider accepts iff both legs land in the node list", conds)
    else:
        r = payload(v)
        c.acc(st, "spider accepts iff both legs land in the node list", conds)
        discrete(c, st, r, w.f["0"].t)
        c.teq(st, "spider: source leg as given", tab(r.f["s"]), tab(s_))
        c.teq(st, "spider: target leg as given", tab(r.f["t"]), tab(t_))


def discrete(c, st, r, w):
    h = r.f["h"]
    c.teq(st, "discrete: node labels as given", h.f["w"].f["0"].t, w)
    c.eq(st, "discrete: no hyperedges", inv.values_len(h.f["x"]), 0)
    c.eq(st, "discrete: no source incidence", t_len(tab(h.f["s"].f["values"])), 0)
    c.eq(st, "discrete: no target incidence", t_len(tab(h.f["t"].f["values"])), 0)


@spec("category::spider::Spider::half_spider")
def oh_half_spider(c, a, st, v):
    s_, w = a["s"], a["w"]
    nw = inv.values_len(w)
    conds = [("eq", tgt(s_), nw)]
    if is_fail(v):
        c.rej(st, "half_spider accepts iff the leg lands in the node list", conds)
    else:
        r = payload(v)
        c.acc(st, "half_spider accepts iff the leg lands in the node list", conds)
        c.teq(st, "half_spider: target leg is the identity on the nodes", tab(r.f["t"]), mk_arange(0, nw))
        c.teq(st, "half_spider: source leg as given", tab(r.f["s"]), tab(s_))


@spec(f"<{S_OH}<K, O, A> as category::spider::Spider<K>>::dagger")
def oh_dagger(c, a, st, v):
    f = a["self"]
    c.teq(st, "dagger: source leg = old target leg", tab(v.f["s"]), tab(f.f["t"]))
    c.teq(st, "dagger: target leg = old source leg", tab(v.f["t"]), tab(f.f["s"]))
    c.eq(st, "dagger: leg codomains", tgt(v.f["s"]), tgt(f.f["t"]))
    same_hypergraph(c, st, v.f["h"], f.f["h"], "dagger")


def same_hypergraph(c, st, h1, h2, what):
    for leg in ("s", "t"):
        c.teq(st, f"{what}: {leg} sizes untouched", ic_sizes(h1.f[leg]), ic_sizes(h2.f[leg]))
        c.teq(st, f"{what}: {leg} incidence untouched", tab(h1.f[leg].f["values"]), tab(h2.f[leg].f["values"]))
    c.teq(st, f"{what}: node labels untouched", h1.f["w"].f["0"].t, h2.f["w"].f["0"].t)
    c.teq(st, f"{what}: edge labels untouched", h1.f["x"].f["0"].t, h2.f["x"].f["0"].t)


@spec(f"{S_OH}::<K, O, A>::identity", f"<{S_OH}<K, O, A> as category::traits::Arrow>::identity")
def oh_identity(c, a, st, v):
    w = a["w"].f["0"].t
    c.teq(st, "identity: source type = w", src_type(st, v), w)
    c.teq(st, "identity: target type = w", tgt_type(st, v), w)
    discrete(c, st, v, w)


@spec(f"<{S_OH}<K, O, A> as category::traits::SymmetricMonoidal>::twist")
def oh_twist(c, a, st, v):
    x, y = a["a"].f["0"].t, a["b"].f["0"].t
    c.teq(st, "twist: source type = a ● b", src_type(st, v), mk_concat([x, y]))
    c.teq(st, "twist: target type = b ● a", tgt_type(st, v), mk_concat([y, x]))
    c.eq(st, "twist: discrete", inv.values_len(v.f["h"].f["x"]), 0)
    crossing(c, st, tab(v.f["s"]), tab(v.f["t"]), t_len(x), t_len(y), "twist")


def crossing(c, st, s_leg, t_leg, na, nb, what):
    """The wiring of the symmetry a ● b -> b ● a: source position i of a meets target position |b|+i, source position
    |a|+j of b meets target position j.  Two canonical presentations over a + b nodes (one leg the identity)."""
    n = na + nb
    ident = mk_arange(0, n)
    fwd = mk_concat([mk_arange(nb, n), mk_arange(0, nb)])       # a-block to positions |b|.., b-block to 0..
    bwd = mk_concat([mk_arange(na, n), mk_arange(0, na)])       # its inverse
    ok = (terms_equal(st, s_leg, fwd) and terms_equal(st, t_leg, ident)) or \
         (terms_equal(st, s_leg, ident) and terms_equal(st, t_leg, bwd))
    c.ob("ENS", f"{what}: the two blocks are crossed (the i-th wire of a leaves at position |b|+i, the j-th wire of b at position j)",
         f"(s, t) ≡ ([|b|..|a|+|b|, 0..|b|], id) or (id, [|a|..|a|+|b|, 0..|a|]): got s={show_term(normalise(st, s_leg))[:120]} t={show_term(normalise(st, t_leg))[:120]}",
         ok, st, actual=(s_leg, t_leg))


@spec(f"{S_OH}::<K, O, A>::source", f"<{S_OH}<K, O, A> as category::traits::Arrow>::source")
def oh_source(c, a, st, v):
    f = a["self"]
    c.teq(st, "source type = labels of the source leg", v.f["0"].t, ("gather", w_of(f), tab(f.f["s"])))


@spec(f"{S_OH}::<K, O, A>::target", f"<{S_OH}<K, O, A> as category::traits::Arrow>::target")
def oh_target(c, a, st, v):
    f = a["self"]
    c.teq(st, "target type = labels of the target leg", v.f["0"].t, ("gather", w_of(f), tab(f.f["t"])))


@spec(f"<{S_OH}<K, O, A> as category::traits::Monoidal>::tensor", f"<&{S_OH}<K, O, A> as std::ops::BitOr<")
def oh_tensor(c, a, st, v):
    f, g = list(a.values())[:2]
    nf = inv.values_len(f.f["h"].f["w"])
    c.teq(st, "tensor: source leg = f.s then g.s shifted by |f.w|", tab(v.f["s"]),
          mk_concat([tab(f.f["s"]), mk_shift(nf, tab(g.f["s"]))]))
    c.teq(st, "tensor: target leg = f.t then g.t shifted by |f.w|", tab(v.f["t"]),
          mk_concat([tab(f.f["t"]), mk_shift(nf, tab(g.f["t"]))]))
    h_coproduct_spec(c, st, v.f["h"], f.f["h"], g.f["h"], "tensor")
    c.teq(st, "tensor: source type = concatenation", src_type(st, v), mk_concat([src_type(st, f), src_type(st, g)]))
    c.teq(st, "tensor: target type = concatenation", tgt_type(st, v), mk_concat([tgt_type(st, f), tgt_type(st, g)]))


def h_coproduct_spec(c, st, r, f, g, what):
    nf = inv.values_len(f.f["w"])
    for leg in ("s", "t"):
        c.teq(st, f"{what}: {leg} segment sizes juxtaposed", ic_sizes(r.f[leg]),
              mk_concat([ic_sizes(f.f[leg]), ic_sizes(g.f[leg])]))
        c.teq(st, f"{what}: {leg} incidence = f's then g's shifted by |f.w|", tab(r.f[leg].f["values"]),
              mk_concat([tab(f.f[leg].f["values"]), mk_shift(nf, tab(g.f[leg].f["values"]))]))
        c.eq(st, f"{what}: {leg} incidence codomain = |f.w|+|g.w|", tgt(r.f[leg].f["values"]),
             nf + inv.values_len(g.f["w"]))
    c.teq(st, f"{what}: node labels juxtaposed", r.f["w"].f["0"].t, mk_concat([f.f["w"].f["0"].t, g.f["w"].f["0"].t]))
    c.teq(st, f"{what}: edge labels juxtaposed", r.f["x"].f["0"].t, mk_concat([f.f["x"].f["0"].t, g.f["x"].f["0"].t]))


@spec(f"{S_H}::<K, O, A>::coproduct", f"<&{S_H}<K, O, A> as std::ops::Add<")
def h_coproduct(c, a, st, v):
    f, g = list(a.values())[:2]
    h_coproduct_spec(c, st, v, f, g, "coproduct")


@spec(f"{S_H}::<K, O, A>::discrete")
def h_discrete(c, a, st, v):
    w = a["w"].f["0"].t
    c.teq(st, "discrete: labels as given", v.f["w"].f["0"].t, w)
    c.eq(st, "discrete: no edges", inv.values_len(v.f["x"]), 0)
    c.eq(st, "discrete: incidence codomain = |w|", tgt(v.f["s"].f["values"]), t_len(w))


@spec(f"<{S_OH}<K, O, A> as category::traits::Arrow>::compose", f"<&{S_OH}<K, O, A> as std::ops::Shr<")
def oh_compose(c, a, st, v):
    f, g = list(a.values())[:2]
    cond = [("teq", mk_gather(st, w_of(f), tab(f.f["t"])), mk_gather(st, w_of(g), tab(g.f["s"])))]
    if is_fail(v):
        c.rej(st, "composition fails only on a type mismatch", cond)
        return
    r = payload(v)
    c.acc(st, "composition succeeds only when target(f) = source(g)", cond)
    c.teq(st, "compose: source type taken from the left", src_type(st, r), src_type(st, f))
    c.teq(st, "compose: target type taken from the right", tgt_type(st, r), tgt_type(st, g))
    c.eq(st, "compose: legs keep their arity (source)", t_len(tab(r.f["s"])), t_len(tab(f.f["s"])))
    c.eq(st, "compose: legs keep their arity (target)", t_len(tab(r.f["t"])), t_len(tab(g.f["t"])))
    h, fh, gh = r.f["h"], f.f["h"], g.f["h"]
    fx, gx = fh.f["x"].f["0"].t, gh.f["x"].f["0"].t
    # every hyperedge keeps its label and its arities; one common order for labels and both incidences
    orders = [(fh, gh), (gh, fh)]
    ok_order = None
    for (p, q) in orders:
        if terms_equal(st, h.f["x"].f["0"].t, mk_concat([p.f["x"].f["0"].t, q.f["x"].f["0"].t])):
            ok_order = (p, q)
            break
    c.ob("ENS", "compose: hyperedge labels kept (f's and g's, in one order)",
         f"{show_term(h.f['x'].f['0'].t)[:200]} ≡ f.x ++ g.x (either order)", ok_order is not None, st)
    if ok_order:
        p, q = ok_order
        for leg in ("s", "t"):
            c.teq(st, f"compose: {leg} arities kept in the same order as the labels", ic_sizes(h.f[leg]),
                  mk_concat([ic_sizes(p.f[leg]), ic_sizes(q.f[leg])]))
    # the glued node set: one class per connected component of the pre-quotient node space
    c.eq(st, "compose: incidence and legs land in the quotient node set", tgt(r.f["s"]), inv.values_len(h.f["w"]))
    # the gluing itself (C01/C04): with q the coequalizer of f's target leg and g's source leg (both injected into
    # the disjoint union of the node sets), every leg, every incidence list and every node label of the result is
    # the operand's, mapped through q — and through nothing else.  The analysis cannot prove isomorphism, so a result
    # not written through q (a shortcut returning an operand) is reported.
    compose_gluing(c, st, r, f, g, ok_order or (fh, gh))


def _find_cc(t, out):
    if isinstance(t, tuple):
        if t and t[0] == "cc" and len(t) == 4:
            out.append(t)
        for x in t:
            _find_cc(x, out)
    elif isinstance(t, Poly):
        for a_ in t.atoms():
            _find_cc(a_, out)


def compose_gluing(c, st, r, f, g, order):
    fh, gh = f.f["h"], g.f["h"]
    first_is_f = order[0] is fh
    A, B = (f, g) if first_is_f else (g, f)          # A's nodes come first in the disjoint union
    nA = inv.values_len(A.f["h"].f["w"])
    nB = inv.values_len(B.f["h"].f["w"])

    def inj(x, t):
        return t if x is A else mk_shift(nA, t)
    lf, lg = inj(f, tab(f.f["t"])), inj(g, tab(g.f["s"]))
    cands = []
    fields = [tab(r.f["s"]), tab(r.f["t"]), tab(r.f["h"].f["s"].f["values"]), tab(r.f["h"].f["t"].f["values"]),
              r.f["h"].f["w"].f["0"].t]
    for t_ in fields:
        _find_cc(normalise(st, t_), cands)
    q = None
    for cc in cands:
        x, y, n = cc[1], cc[2], as_poly(cc[3])
        if st.eq(n, nA + nB) and ((terms_equal(st, x, lf) and terms_equal(st, y, lg)) or
                                  (terms_equal(st, x, lg) and terms_equal(st, y, lf))):
            q = cc
            break
    c.ob("ENS", "compose: the boundary nodes are glued by the coequalizer of f's target leg and g's source leg",
         f"result legs are written through cc({show_term(lf)[:80]}, {show_term(lg)[:80]}, |f.w|+|g.w|): got s = "
         f"{show_term(tab(r.f['s']))[:160]}", q is not None, st, actual=tab(r.f["s"]))
    if q is None:
        return
    c.teq(st, "compose: source leg = f's source leg through the gluing", tab(r.f["s"]),
          ("gather", q, inj(f, tab(f.f["s"]))))
    c.teq(st, "compose: target leg = g's target leg through the gluing", tab(r.f["t"]),
          ("gather", q, inj(g, tab(g.f["t"]))))
    for leg in ("s", "t"):
        c.teq(st, f"compose: {leg} incidence = the operands' incidence through the gluing, nothing else",
              tab(r.f["h"].f[leg].f["values"]),
              ("gather", q, mk_concat([tab(A.f["h"].f[leg].f["values"]),
                                       mk_shift(nA, tab(B.f["h"].f[leg].f["values"]))])))
    c.teq(st, "compose: every node keeps its label through the gluing (q ; w' = w_f ++ w_g)",
          ("gather", r.f["h"].f["w"].f["0"].t, q),
          mk_concat([A.f["h"].f["w"].f["0"].t, B.f["h"].f["w"].f["0"].t]))


@spec(f"{S_OH}::<K, O, A>::tensor_operations")
def oh_tensor_operations(c, a, st, v):
    ops = a["operations"]
    c.teq(st, "tensor_operations: source type = all source types", src_type(st, v), ops.f["a"].f["values"].f["0"].t)
    c.teq(st, "tensor_operations: target type = all target types", tgt_type(st, v), ops.f["b"].f["values"].f["0"].t)
    c.teq(st, "tensor_operations: labels as given", v.f["h"].f["x"].f["0"].t, ops.f["x"].f["0"].t)
    c.teq(st, "tensor_operations: source arities as given", ic_sizes(v.f["h"].f["s"]), ic_sizes(ops.f["a"]))
    c.teq(st, "tensor_operations: target arities as given", ic_sizes(v.f["h"].f["t"]), ic_sizes(ops.f["b"]))


@spec(f"{S_OH}::<K, O, A>::singleton")
def oh_singleton(c, a, st, v):
    c.teq(st, "singleton: source type a", src_type(st, v), a["a"].f["0"].t)
    c.teq(st, "singleton: target type b", tgt_type(st, v), a["b"].f["0"].t)
    c.eq(st, "singleton: one hyperedge", inv.values_len(v.f["h"].f["x"]), 1)


@spec(f"{S_H}::<K, O, A>::coequalize_vertices")
def h_coequalize(c, a, st, v):
    h, q = a["self"], a["q"]
    if is_fail(v):
        return
    r = payload(v)
    for leg in ("s", "t"):
        c.teq(st, f"coequalize_vertices: {leg} incidence mapped through q", tab(r.f[leg].f["values"]),
              ("gather", tab(q), tab(h.f[leg].f["values"])))
        c.teq(st, f"coequalize_vertices: {leg} arities untouched", ic_sizes(r.f[leg]), ic_sizes(h.f[leg]))
    c.teq(st, "coequalize_vertices: edge labels untouched", r.f["x"].f["0"].t, h.f["x"].f["0"].t)
    c.eq(st, "coequalize_vertices: one label per class", inv.values_len(r.f["w"]), tgt(q))
    c.teq(st, "coequalize_vertices: every node keeps its label (q ; w' = w)",
          ("gather", r.f["w"].f["0"].t, tab(q)), h.f["w"].f["0"].t)


# ------------------------------------------------------------------ functors / optics

@spec("strict::functor::traits::define_map_arrow")
def define_map_arrow(c, a, st, v):
    F = a["functor"].key if isinstance(a["functor"], VUser) else "functor"
    f = a["f"]
    c.teq(st, "map_arrow: source type F(A)", src_type(st, v), ("Fmap", F, src_type(st, f)))
    c.teq(st, "map_arrow: target type F(B)", tgt_type(st, v), ("Fmap", F, tgt_type(st, f)))
    # GLUE: every hyperedge is replaced by the image of its operation, glued along its expanded legs — the result is
    # BUILT FROM the interface legs and the nodes of the tensor of the operation images (data dependence), unless
    # those are empty on this path
    user = set()

    def collect(x):
        if isinstance(x, tuple):
            if len(x) == 2 and x[0] == "v" and isinstance(x[1], tuple) and len(x[1]) == 2 and isinstance(x[1][0], tuple) \
                    and x[1][0][:2] == ("user", "map_operations"):
                user.add(x)
            for y in x:
                collect(y)
        elif isinstance(x, Poly):
            for a_ in x.atoms():
                collect(a_)
    for k_, p_ in st.lin.facts:
        collect(p_)
    for t_ in list(st.bnd):
        collect(t_)
    used = set()
    _collect_value_leaves(v, used)
    names = {u[1][0] for u in user}
    for nm in sorted(names, key=repr):
        for fld, what in (("s", "source leg"), ("t", "target leg"), ("w", "node labels")):
            lf = ("v", (nm, fld))
            if st.eq(t_len(lf), 0):
                continue
            c.ob("ENS", f"map_arrow: the result is glued from the operation images (their {what})",
                 f"the result mentions {fld} of the tensor of the operation images", lf in used, st)


def _collect_value_leaves(v, out):
    def walk_t(x):
        if isinstance(x, tuple):
            if len(x) == 2 and x[0] == "v":
                out.add(x)
            for y in x:
                walk_t(y)
        elif isinstance(x, Poly):
            for a_ in x.atoms():
                walk_t(a_)
    if isinstance(v, VSeq):
        walk_t(v.t)
    elif isinstance(v, VNat):
        walk_t(v.p)
    elif isinstance(v, VRec):
        for x in v.f.values():
            _collect_value_leaves(x, out)
    elif isinstance(v, VTup):
        for x in v.items:
            _collect_value_leaves(x, out)
    elif isinstance(v, VEnum):
        for x in v.payload:
            _collect_value_leaves(x, out)


@spec("strict::functor::identity::Identity as strict::functor::traits::Functor<K, O, A, O, A>>::map_arrow")
def identity_map_arrow(c, a, st, v):
    f = a["f"]
    c.teq(st, "identity functor: source type preserved", src_type(st, v), src_type(st, f))
    c.teq(st, "identity functor: target type preserved", tgt_type(st, v), tgt_type(st, f))


@spec("strict::functor::identity::Identity as strict::functor::traits::Functor<K, O, A, O, A>>::map_object")
def identity_map_object(c, a, st, v):
    x = a["a"].f["0"].t
    c.teq(st, "identity functor: one unit block per label", ic_sizes(v), ("fill", Poly.const(1), t_len(x)))
    c.teq(st, "identity functor: labels kept", v.f["values"].f["0"].t, x)


@spec("Functor<K, O1, A1, O2, A2>>::map_object")
def optic_map_object(c, a, st, v):
    x = a["a"].f["0"].t
    c.eq(st, "optic object map: one block per label", t_len(ic_sizes(v)), t_len(x))
    c.teq(st, "optic object map: block sizes = forward sizes + reverse sizes", ic_sizes(v),
          ("add", ("Fsizes", "self.fwd", x), ("Fsizes", "self.rev", x)))


@spec("strict::functor::optic::Optic::<F, R, K, O1, A1, O2, A2>::adapt")
def optic_adapt(c, a, st, v):
    x, y = a["a"].f["0"].t, a["b"].f["0"].t
    c.teq(st, "adapt: source type F(A) ● R(B)", src_type(st, v),
          mk_concat([("Fmap", "self.fwd", x), ("Fmap", "self.rev", y)]))
    c.teq(st, "adapt: target type F(B) ● R(A)", tgt_type(st, v),
          mk_concat([("Fmap", "self.fwd", y), ("Fmap", "self.rev", x)]))
    same_hypergraph(c, st, v.f["h"], v.f["h"], "adapt")


# ------------------------------------------------------------------ layering / evaluation

@spec("strict::layer::layer")
def layer_spec(c, a, st, v):
    f = a["f"]
    nx = inv.values_len(f.f["h"].f["x"])
    order, flags = v.items
    c.eq(st, "layer: one layer number per operation", t_len(tab(order)), nx)
    c.eq(st, "layer: layer numbers range over 0..|X|", tgt(order), nx)
    c.eq(st, "layer: one flag per operation", t_len(flags.t), nx)


@spec("strict::eval::eval")
def eval_spec(c, a, st, v):
    f = a["f"]
    if is_fail(v):
        return
    r = payload(v)
    c.eq(st, "eval: one output value per target position", t_len(r.t), t_len(tab(f.f["t"])))


# ------------------------------------------------------------------ array trait defaults (C07)

@spec("array::traits::Array::to_range")
def to_range_spec(c, a, st, v):
    n = t_len(a["self"].t)
    key = a["r"].key
    lo_atom = Poly.atom(("bound", key, "start"))
    hi_atom = Poly.atom(("bound", key, "end"))
    forms = {}
    for p in st.path:
        if p.startswith("start_bound=") or p.startswith("end_bound="):
            k, _, val = p.partition("=")
            forms[k] = val
    want_lo = {"Included": lo_atom, "Excluded": lo_atom + 1, "Unbounded": Poly.const(0)}[forms["start_bound"]]
    want_hi = {"Included": hi_atom + 1, "Excluded": hi_atom, "Unbounded": n}[forms["end_bound"]]
    c.eq(st, f"to_range: start for {forms['start_bound']} bound", v.lo.p, want_lo)
    c.eq(st, f"to_range: end (exclusive) for {forms['end_bound']} bound", v.hi.p, want_hi)


@spec("array::traits::NaturalArray::sum")
def sum_spec(c, a, st, v):
    # sum(x) is the last element of the cumulative sum (0 for the empty array)
    x = a["self"].t
    ok = st.eq(v.p, t_sum(x)) or (st.eq(t_len(x), 0) and st.eq(v.p, 0))
    c.ob("ENS", "sum = last entry of the cumulative sum", f"{show_poly(v.p)} == sum(self)", ok, st)


@spec("array::traits::NaturalArray::segmented_sum")
def segsum_spec(c, a, st, v):
    c.eq(st, "segmented_sum: one entry per segment", t_len(v.t), t_len(a["self"].t))


@spec("array::traits::NaturalArray::segmented_arange")
def segarange_spec(c, a, st, v):
    c.eq(st, "segmented_arange: total length = sum of sizes", t_len(v.t), t_sum(a["self"].t))


@spec("array::traits::OrdArray::sort_by")
def sort_by_spec(c, a, st, v):
    c.teq(st, "sort_by = gather by the argsort of the key", v.t, ("gather", a["self"].t, ("argsort", a["key"].t)))


@spec("array::traits::Array::is_empty")
def is_empty_spec(c, a, st, v):
    bool_iff(c, st, v, ("cmp", "eq", t_len(a["self"].t)), "is_empty ⇔ len == 0")


# ------------------------------------------------------------------ lax diagrams (C02, C04, C09, C10, C11)

import lax_model
from lax_model import freeze

LH, LOH, LEDGE = inv.LH, inv.LOH, inv.LEDGE
L_OH = "lax::open_hypergraph::OpenHypergraph::<O, A>"
L_H = "lax::hypergraph::Hypergraph::<O, A>"


def one(v):
    if isinstance(v, VNat):
        return ("fill", v.p, Poly.const(1))
    return ("single", freeze(v))


def post_self(c, st, name="self"):
    for (nm, root) in c.res["muts"]:
        if nm == name:
            return st.env[root]
    return None


def hyp(v):
    return v.f["hypergraph"] if v.ty == LOH else v


def n_nodes(v):
    return t_len(hyp(v).f["nodes"].t)


def shifted_adjacency(L, n):
    body = VRec(LEDGE, {"sources": VSeq(mk_shift(n, ("el", L, "sources"))),
                        "targets": VSeq(mk_shift(n, ("el", L, "targets")))})
    if L[0] == "empty":
        return EMPTY
    return ("lmap", L, freeze(body))


def lax_coproduct_spec(c, st, r, f, g, what):
    """r = f + g : everything of f, then everything of g with node references shifted by |f.nodes|."""
    n = t_len(f.f["nodes"].t)
    c.teq(st, f"{what}: node labels juxtaposed", r.f["nodes"].t, mk_concat([f.f["nodes"].t, g.f["nodes"].t]))
    c.teq(st, f"{what}: edge labels juxtaposed", r.f["edges"].t, mk_concat([f.f["edges"].t, g.f["edges"].t]))
    c.teq(st, f"{what}: hyperedges of f, then hyperedges of g shifted by |f.nodes|", r.f["adjacency"].t,
          mk_concat([f.f["adjacency"].t, shifted_adjacency(g.f["adjacency"].t, n)]))
    for i in (0, 1):
        c.teq(st, f"{what}: pending unifications side {i}: f's, then g's shifted by |f.nodes|",
              r.f["quotient"].items[i].t,
              mk_concat([f.f["quotient"].items[i].t, mk_shift(n, g.f["quotient"].items[i].t)]))


def lax_tensor_spec(c, st, r, f, g, what):
    n = n_nodes(f)
    c.teq(st, f"{what}: sources = f's then g's shifted by |f.nodes|", r.f["sources"].t,
          mk_concat([f.f["sources"].t, mk_shift(n, g.f["sources"].t)]))
    c.teq(st, f"{what}: targets = f's then g's shifted by |f.nodes|", r.f["targets"].t,
          mk_concat([f.f["targets"].t, mk_shift(n, g.f["targets"].t)]))
    lax_coproduct_spec(c, st, hyp(r), hyp(f), hyp(g), what)


def same_lax_hypergraph(c, st, h1, h0, what, except_=()):
    for fld in ("nodes", "edges", "adjacency"):
        if fld not in except_:
            c.teq(st, f"{what}: {fld} untouched", h1.f[fld].t, h0.f[fld].t)
    if "quotient" not in except_:
        for i in (0, 1):
            c.teq(st, f"{what}: pending unifications untouched ({i})", h1.f["quotient"].items[i].t,
                  h0.f["quotient"].items[i].t)


def same_interfaces(c, st, r, f, what):
    c.teq(st, f"{what}: sources untouched", r.f["sources"].t, f.f["sources"].t)
    c.teq(st, f"{what}: targets untouched", r.f["targets"].t, f.f["targets"].t)


@spec(f"{L_OH}::tensor", "Monoidal for lax::open_hypergraph::OpenHypergraph<O, A>>::tensor",
      "BitOr<&lax::open_hypergraph::OpenHypergraph<O, A>> for &lax::open_hypergraph::OpenHypergraph<O, A>>::bitor")
def lax_tensor(c, a, st, v):
    f, g = list(a.values())[:2]
    lax_tensor_spec(c, st, v, f, g, "tensor")


@spec(f"{L_H}::coproduct")
def lax_coproduct(c, a, st, v):
    f, g = list(a.values())[:2]
    lax_coproduct_spec(c, st, v, f, g, "coproduct")


@spec("impl lax::hypergraph::Hypergraph<O, A>>::coproduct_assign")
def lax_coproduct_assign(c, a, st, v):
    lax_coproduct_spec(c, st, post_self(c, st), a["self"], a["rhs"], "coproduct_assign (= pure coproduct)")


@spec("impl lax::open_hypergraph::OpenHypergraph<O, A>>::tensor_assign")
def lax_tensor_assign(c, a, st, v):
    lax_tensor_spec(c, st, post_self(c, st), a["self"], a["rhs"], "tensor_assign (= pure tensor)")


@spec("impl lax::open_hypergraph::OpenHypergraph<O, A>>::append")
def lax_append(c, a, st, v):
    f, g = a["self"], a["rhs"]
    p = post_self(c, st)
    n = n_nodes(f)
    lax_coproduct_spec(c, st, hyp(p), hyp(f), hyp(g), "append")
    same_interfaces(c, st, p, f, "append")
    c.teq(st, "append: returns rhs sources shifted by |self.nodes|", v.items[0].t, mk_shift(n, g.f["sources"].t))
    c.teq(st, "append: returns rhs targets shifted by |self.nodes|", v.items[1].t, mk_shift(n, g.f["targets"].t))


@spec("impl lax::open_hypergraph::OpenHypergraph<O, A>>::lax_compose")
def lax_lax_compose(c, a, st, v):
    f, g = a["self"], a["other"]
    cond = [("eq", t_len(f.f["targets"].t), t_len(g.f["sources"].t))]
    if is_fail(v):
        c.rej(st, "lax_compose defined iff the boundary arities match", cond)
        return
    r = payload(v)
    c.acc(st, "lax_compose defined iff the boundary arities match", cond)
    lax_compose_wiring(c, st, r, f, g)


def lax_compose_wiring(c, st, r, f, g):
    n = n_nodes(f)
    c.teq(st, "compose: sources are f's sources", r.f["sources"].t, f.f["sources"].t)
    c.teq(st, "compose: targets are g's targets shifted by |f.nodes|", r.f["targets"].t, mk_shift(n, g.f["targets"].t))
    h, fh, gh = hyp(r), hyp(f), hyp(g)
    c.teq(st, "compose: node labels juxtaposed", h.f["nodes"].t, mk_concat([fh.f["nodes"].t, gh.f["nodes"].t]))
    c.teq(st, "compose: edge labels juxtaposed", h.f["edges"].t, mk_concat([fh.f["edges"].t, gh.f["edges"].t]))
    c.teq(st, "compose: hyperedges of f, then of g shifted", h.f["adjacency"].t,
          mk_concat([fh.f["adjacency"].t, shifted_adjacency(gh.f["adjacency"].t, n)]))
    # one unification per boundary position: f.targets[i] ~ g.sources[i] + n (which list holds which is free)
    base = [mk_concat([fh.f["quotient"].items[i].t, mk_shift(n, gh.f["quotient"].items[i].t)]) for i in (0, 1)]
    ft, gs = f.f["targets"].t, mk_shift(n, g.f["sources"].t)
    q0, q1 = h.f["quotient"].items[0].t, h.f["quotient"].items[1].t
    ok = (terms_equal(st, q0, mk_concat([base[0], ft])) and terms_equal(st, q1, mk_concat([base[1], gs]))) or \
         (terms_equal(st, q0, mk_concat([base[0], gs])) and terms_equal(st, q1, mk_concat([base[1], ft])))
    c.ob("ENS", "compose: the i-th target of f is unified with the i-th source of g (shifted), position-aligned",
         f"quotient = old pairs ++ (f.targets, g.sources + |f.nodes|): got ({show_term(normalise(st, q0))[:200]}, {show_term(normalise(st, q1))[:200]})", ok, st)


@spec("Arrow for lax::open_hypergraph::OpenHypergraph<O, A>>::compose",
      "Shr<&lax::open_hypergraph::OpenHypergraph<O, A>> for &lax::open_hypergraph::OpenHypergraph<O, A>>::shr")
def lax_compose(c, a, st, v):
    f, g = list(a.values())[:2]
    ty_f = mk_gather(st, hyp(f).f["nodes"].t, f.f["targets"].t)
    ty_g = mk_gather(st, hyp(g).f["nodes"].t, g.f["sources"].t)
    cond = [("teq", ty_f, ty_g)]
    if is_fail(v):
        c.rej(st, "lax composition is defined iff the boundary types match", cond)
        return
    r = payload(v)
    c.acc(st, "lax composition is defined iff the boundary types match", cond)
    lax_compose_wiring(c, st, r, f, g)


@spec("Arrow for lax::open_hypergraph::OpenHypergraph<O, A>>::source")
def lax_source(c, a, st, v):
    f = a["self"]
    c.teq(st, "source type = labels of the source nodes", v.t, ("gather", hyp(f).f["nodes"].t, f.f["sources"].t))


@spec("Arrow for lax::open_hypergraph::OpenHypergraph<O, A>>::target")
def lax_target(c, a, st, v):
    f = a["self"]
    c.teq(st, "target type = labels of the target nodes", v.t, ("gather", hyp(f).f["nodes"].t, f.f["targets"].t))


def lax_discrete(c, st, r, w, what):
    h = hyp(r)
    c.teq(st, f"{what}: node labels as given", h.f["nodes"].t, w)
    c.eq(st, f"{what}: no hyperedges", t_len(h.f["edges"].t), 0)
    c.eq(st, f"{what}: no adjacency", t_len(h.f["adjacency"].t), 0)
    c.eq(st, f"{what}: no pending unifications", t_len(h.f["quotient"].items[0].t) + t_len(h.f["quotient"].items[1].t), 0)


@spec(f"{L_OH}::identity", "Arrow for lax::open_hypergraph::OpenHypergraph<O, A>>::identity")
def lax_identity(c, a, st, v):
    w = a["a"].t
    c.teq(st, "identity: sources 0..n", v.f["sources"].t, mk_arange(0, t_len(w)))
    c.teq(st, "identity: targets 0..n", v.f["targets"].t, mk_arange(0, t_len(w)))
    lax_discrete(c, st, v, w, "identity")


@spec(f"{L_OH}::spider", "Spider<array::vec::vec_array::VecKind> for lax::open_hypergraph::OpenHypergraph<O, A>>::spider")
def lax_spider(c, a, st, v):
    s_, t_, w = a["s"], a["t"], a["w"]
    cond = [("eq", tgt(s_), t_len(w.t)), ("eq", tgt(t_), t_len(w.t))]
    if is_fail(v):
        c.rej(st, "lax spider accepts iff both legs land in the node list", cond)
        return
    r = payload(v)
    c.acc(st, "lax spider accepts iff both legs land in the node list", cond)
    c.teq(st, "spider: sources as given", r.f["sources"].t, tab(s_))
    c.teq(st, "spider: targets as given", r.f["targets"].t, tab(t_))
    lax_discrete(c, st, r, w.t, "spider")


@spec("Spider<array::vec::vec_array::VecKind> for lax::open_hypergraph::OpenHypergraph<O, A>>::dagger")
def lax_dagger(c, a, st, v):
    f = a["self"]
    c.teq(st, "dagger: sources = old targets", v.f["sources"].t, f.f["targets"].t)
    c.teq(st, "dagger: targets = old sources", v.f["targets"].t, f.f["sources"].t)
    same_lax_hypergraph(c, st, hyp(v), hyp(f), "dagger")


@spec("SymmetricMonoidal for lax::open_hypergraph::OpenHypergraph<O, A>>::twist")
def lax_twist(c, a, st, v):
    x, y = a["a"].t, a["b"].t
    nodes = hyp(v).f["nodes"].t
    c.teq(st, "twist: source type a ● b", mk_gather(st, nodes, v.f["sources"].t), mk_concat([x, y]))
    c.teq(st, "twist: target type b ● a", mk_gather(st, nodes, v.f["targets"].t), mk_concat([y, x]))
    c.eq(st, "twist: no hyperedges", t_len(hyp(v).f["edges"].t), 0)
    crossing(c, st, v.f["sources"].t, v.f["targets"].t, t_len(x), t_len(y), "lax twist")


@spec(f"{L_OH}::singleton")
def lax_singleton(c, a, st, v):
    s_, t_ = a["source_type"].t, a["target_type"].t
    ns, nt = t_len(s_), t_len(t_)
    h = hyp(v)
    c.teq(st, "singleton: nodes = source type then target type", h.f["nodes"].t, mk_concat([s_, t_]))
    c.teq(st, "singleton: sources 0..|s|", v.f["sources"].t, mk_arange(0, ns))
    c.teq(st, "singleton: targets |s|..|s|+|t|", v.f["targets"].t, mk_arange(ns, ns + nt))
    c.eq(st, "singleton: one hyperedge", t_len(h.f["edges"].t), 1)
    c.eq(st, "singleton: one adjacency entry", t_len(h.f["adjacency"].t), 1)


@spec(f"{L_OH}::from_strict")
def lax_from_strict(c, a, st, v):
    f = a["f"]
    c.teq(st, "from_strict: sources = source leg", v.f["sources"].t, tab(f.f["s"]))
    c.teq(st, "from_strict: targets = target leg", v.f["targets"].t, tab(f.f["t"]))
    h = hyp(v)
    c.teq(st, "from_strict: node labels", h.f["nodes"].t, f.f["h"].f["w"].f["0"].t)
    c.teq(st, "from_strict: edge labels", h.f["edges"].t, f.f["h"].f["x"].f["0"].t)
    c.eq(st, "from_strict: one adjacency entry per edge", t_len(h.f["adjacency"].t), t_len(f.f["h"].f["x"].f["0"].t))
    c.eq(st, "from_strict: no pending unifications", t_len(h.f["quotient"].items[0].t) + t_len(h.f["quotient"].items[1].t), 0)


@spec(f"{L_OH}::to_strict")
def lax_to_strict(c, a, st, v):
    f = a["self"]
    h = hyp(f)
    n = t_len(h.f["nodes"].t)
    q = ("cc", h.f["quotient"].items[0].t, h.f["quotient"].items[1].t, n)
    c.teq(st, "to_strict: source leg = sources through the quotient", tab(v.f["s"]), ("gather", q, f.f["sources"].t))
    c.teq(st, "to_strict: target leg = targets through the quotient", tab(v.f["t"]), ("gather", q, f.f["targets"].t))
    c.teq(st, "to_strict: edge labels kept", v.f["h"].f["x"].f["0"].t, h.f["edges"].t)
    c.eq(st, "to_strict: one node per class", inv.values_len(v.f["h"].f["w"]), Poly.atom(("ncomp",) + q[1:]))


# ---- quotient (C09)

def quotient_spec(c, a, st, v, open_):
    f = a["self"]
    h0 = hyp(f)
    p = post_self(c, st)
    h1 = hyp(p)
    n = t_len(h0.f["nodes"].t)
    q = ("cc", h0.f["quotient"].items[0].t, h0.f["quotient"].items[1].t, n)
    qv = v.payload[0]
    c.teq(st, "quotient: returned map = connected components of the pending unifications", tab(qv), q)
    c.eq(st, "quotient: returned map codomain = number of classes", tgt(qv), Poly.atom(("ncomp",) + q[1:]))
    if v.variant == "Err":
        # atomic failure: nothing changed
        same_lax_hypergraph(c, st, h1, h0, "failed quotient leaves the diagram unchanged")
        if open_:
            same_interfaces(c, st, p, f, "failed quotient leaves the diagram unchanged")
        return
    c.teq(st, "quotient: every old node keeps its label (q ; new labels = old labels)",
          ("gather", h1.f["nodes"].t, q), h0.f["nodes"].t)
    c.eq(st, "quotient: one node per class", t_len(h1.f["nodes"].t), Poly.atom(("ncomp",) + q[1:]))
    c.teq(st, "quotient: hyperedge labels and order untouched", h1.f["edges"].t, h0.f["edges"].t)
    L = h0.f["adjacency"].t
    body = VRec(LEDGE, {"sources": VSeq(("gather", q, ("el", L, "sources"))),
                        "targets": VSeq(("gather", q, ("el", L, "targets")))})
    want = ("lmap", L, freeze(VRec(LEDGE, {k: VSeq(normalise(st, x.t)) for k, x in body.f.items()})))
    got = h1.f["adjacency"].t
    ok = got == want or (L == EMPTY and got == EMPTY)
    if not ok and got[0] == "lmap" and got[1] == L:
        gb = lax_model.thaw(got[2])
        ok = isinstance(gb, VRec) and all(terms_equal(st, gb.f[k].t, body.f[k].t) for k in ("sources", "targets"))
    c.ob("ENS", "quotient: every hyperedge reference replaced by its image under q",
         f"adjacency ≡ map(e -> (q∘e.sources, q∘e.targets)): got {show_term(got)[:300]}", ok, st)
    c.eq(st, "quotient: pending unifications cleared", t_len(h1.f["quotient"].items[0].t) + t_len(h1.f["quotient"].items[1].t), 0)
    if open_:
        c.teq(st, "quotient: sources replaced by their images", p.f["sources"].t, ("gather", q, f.f["sources"].t))
        c.teq(st, "quotient: targets replaced by their images", p.f["targets"].t, ("gather", q, f.f["targets"].t))


@spec(f"{L_H}::quotient")
def lax_h_quotient(c, a, st, v):
    quotient_spec(c, a, st, v, False)


@spec(f"{L_OH}::quotient", f"{L_OH}::quotient_witness")
def lax_oh_quotient(c, a, st, v):
    quotient_spec(c, a, st, v, True)


@spec(f"{L_H}::coequalizer")
def lax_coequalizer(c, a, st, v):
    h = a["self"]
    n = t_len(h.f["nodes"].t)
    c.teq(st, "coequalizer of the two unification lists over the node set", tab(v),
          ("cc", h.f["quotient"].items[0].t, h.f["quotient"].items[1].t, n))


# ---- builders (C11)

def builder_ctx(c, a, st):
    f = a["self"]
    p = post_self(c, st)
    return f, p, hyp(f), hyp(p)


@spec(f"{L_H}::new_node", f"{L_OH}::new_node")
def lax_new_node(c, a, st, v):
    f, p, h0, h1 = builder_ctx(c, a, st)
    c.eq(st, "new_node: the identifier is fresh (old node count)", v.p, t_len(h0.f["nodes"].t))
    c.teq(st, "new_node: one node appended", h1.f["nodes"].t, mk_concat([h0.f["nodes"].t, one(a["w"])]))
    same_lax_hypergraph(c, st, h1, h0, "new_node", except_=("nodes",))
    if f.ty == LOH:
        same_interfaces(c, st, p, f, "new_node")


@spec(f"{L_H}::new_edge", f"{L_OH}::new_edge")
def lax_new_edge(c, a, st, v):
    f, p, h0, h1 = builder_ctx(c, a, st)
    c.eq(st, "new_edge: the identifier is fresh (old edge count)", v.p, t_len(h0.f["edges"].t))
    c.teq(st, "new_edge: one edge label appended", h1.f["edges"].t, mk_concat([h0.f["edges"].t, one(a["x"])]))
    c.teq(st, "new_edge: its source/target lists appended", h1.f["adjacency"].t,
          mk_concat([h0.f["adjacency"].t, one(a["interface"])]))
    same_lax_hypergraph(c, st, h1, h0, "new_edge", except_=("edges", "adjacency"))
    if f.ty == LOH:
        same_interfaces(c, st, p, f, "new_edge")


@spec(f"{L_H}::unify", f"{L_OH}::unify")
def lax_unify(c, a, st, v):
    f, p, h0, h1 = builder_ctx(c, a, st)
    c.teq(st, "unify: v recorded on the left", h1.f["quotient"].items[0].t,
          mk_concat([h0.f["quotient"].items[0].t, one(a["v"])]))
    c.teq(st, "unify: w recorded on the right", h1.f["quotient"].items[1].t,
          mk_concat([h0.f["quotient"].items[1].t, one(a["w"])]))
    same_lax_hypergraph(c, st, h1, h0, "unify", except_=("quotient",))
    if f.ty == LOH:
        same_interfaces(c, st, p, f, "unify")


def add_edge_end(c, a, st, v, fld):
    f, p, h0, h1 = builder_ctx(c, a, st)
    n = t_len(h0.f["nodes"].t)
    L = h0.f["adjacency"].t
    i = a["edge_id"].p
    c.eq(st, f"add_edge_{fld[:-1]}: the new node identifier is fresh", v.p, n)
    c.teq(st, f"add_edge_{fld[:-1]}: one node appended", h1.f["nodes"].t, mk_concat([h0.f["nodes"].t, one(a["w"])]))
    want = ("upd", L, i, (fld,), freeze(VSeq(mk_concat([("at", L, fld, i), ("fill", n, Poly.const(1))]))))
    c.ob("ENS", f"add_edge_{fld[:-1]}: the new node is appended to the {fld} of the named edge only",
         f"adjacency ≡ adjacency[edge_id].{fld} ++ [new node]: got {show_term(h1.f['adjacency'].t)[:300]}",
         h1.f["adjacency"].t == want, st)
    same_lax_hypergraph(c, st, h1, h0, f"add_edge_{fld[:-1]}", except_=("nodes", "adjacency"))
    if f.ty == LOH:
        same_interfaces(c, st, p, f, f"add_edge_{fld[:-1]}")


@spec(f"{L_H}::add_edge_source", f"{L_OH}::add_edge_source")
def lax_add_edge_source(c, a, st, v):
    add_edge_end(c, a, st, v, "sources")


@spec(f"{L_H}::add_edge_target", f"{L_OH}::add_edge_target")
def lax_add_edge_target(c, a, st, v):
    add_edge_end(c, a, st, v, "targets")


@spec(f"{L_H}::new_operation", f"{L_OH}::new_operation")
def lax_new_operation(c, a, st, v):
    f, p, h0, h1 = builder_ctx(c, a, st)
    n = t_len(h0.f["nodes"].t)
    s_, t_ = a["source_type"].t, a["target_type"].t
    ns, nt = t_len(s_), t_len(t_)
    c.teq(st, "new_operation: source-type nodes then target-type nodes appended", h1.f["nodes"].t,
          mk_concat([h0.f["nodes"].t, s_, t_]))
    c.teq(st, "new_operation: one edge label appended", h1.f["edges"].t, mk_concat([h0.f["edges"].t, one(a["x"])]))
    srcs, tgts = mk_arange(n, n + ns), mk_arange(n + ns, n + ns + nt)
    edge = VRec(LEDGE, {"sources": VSeq(srcs), "targets": VSeq(tgts)})
    c.teq(st, "new_operation: the edge connects exactly the new nodes, in order", h1.f["adjacency"].t,
          mk_concat([h0.f["adjacency"].t, one(edge)]))
    eid, iface = v.items
    c.eq(st, "new_operation: the edge identifier is fresh", eid.p, t_len(h0.f["edges"].t))
    c.teq(st, "new_operation: returns the new source nodes", iface.items[0].t, srcs)
    c.teq(st, "new_operation: returns the new target nodes", iface.items[1].t, tgts)
    same_lax_hypergraph(c, st, h1, h0, "new_operation", except_=("nodes", "edges", "adjacency"))
    if f.ty == LOH:
        same_interfaces(c, st, p, f, "new_operation")


@spec(f"{L_H}::with_nodes", f"{L_OH}::with_nodes")
def lax_with_nodes(c, a, st, v):
    f = a["self"]
    h0 = hyp(f)
    if is_fail(v):
        return
    r = payload(v)
    h1 = hyp(r)
    c.eq(st, "with_nodes accepts only a label list of the same length", t_len(h1.f["nodes"].t), t_len(h0.f["nodes"].t))
    same_lax_hypergraph(c, st, h1, h0, "with_nodes", except_=("nodes",))


@spec(f"{L_H}::with_edges", f"{L_OH}::with_edges")
def lax_with_edges(c, a, st, v):
    f = a["self"]
    h0 = hyp(f)
    if is_fail(v):
        return
    r = payload(v)
    h1 = hyp(r)
    c.eq(st, "with_edges accepts only a label list of the same length", t_len(h1.f["edges"].t), t_len(h0.f["edges"].t))
    same_lax_hypergraph(c, st, h1, h0, "with_edges", except_=("edges",))


@spec(f"{L_H}::discrete")
def lax_h_discrete(c, a, st, v):
    lax_discrete(c, st, v, a["nodes"].t, "discrete")


@spec(f"{L_H}::is_strict")
def lax_is_strict(c, a, st, v):
    h = a["self"]
    want = ("cmp", "eq", t_len(h.f["quotient"].items[0].t))
    c.ob("ENS", "is_strict ⇔ no pending unification", show_formula(v.f) if isinstance(v, VBool) else repr(v),
         isinstance(v, VBool) and v.f == want, st)


# ------------------------------------------------------------------ iterators (C08 ITER)

def iter_remaining(it):
    sizes = it.f["pointers"].t
    # pointers = cumsum(sizes): number of segments = len(pointers) - 1
    return t_len(sizes) - 1 - it.f["index"].p


@spec("Iterator<K> as std::iter::ExactSizeIterator>::len", "Iterator<K, T> as std::iter::ExactSizeIterator>::len")
def iter_len(c, a, st, v):
    c.eq(st, "ExactSizeIterator::len = number of segments still to come", v.p, iter_remaining(a["self"]))


@spec("Iterator<K> as std::iter::Iterator>::size_hint", "Iterator<K, T> as std::iter::Iterator>::size_hint")
def iter_size_hint(c, a, st, v):
    rem = iter_remaining(a["self"])
    lo, hi = v.items
    c.eq(st, "size_hint lower bound = segments still to come", lo.p, rem)
    ok = isinstance(hi, VEnum) and hi.variant == "Some" and st.eq(hi.payload[0].p, rem)
    c.ob("ENS", "size_hint upper bound = Some(segments still to come)", repr(hi)[:120], ok, st)


@spec("Iterator<K> as std::iter::Iterator>::next", "Iterator<K, T> as std::iter::Iterator>::next")
def iter_next(c, a, st, v):
    it = a["self"]
    p = post_self(c, st)
    rem = iter_remaining(it)
    if is_fail(v):
        c.ob("ENS", "next: None only at the end", "None ⇒ no segment remains", st.eq(rem, 0) or st.ge(0, rem), st)
        c.eq(st, "next: cursor unchanged at the end", p.f["index"].p, it.f["index"].p)
        return
    c.ob("ENS", "next: Some only while segments remain", "Some ⇒ remaining >= 1", st.ge(rem, 1), st)
    c.eq(st, "next: the cursor advances by one", p.f["index"].p, it.f["index"].p + 1)
    seg = payload(v)
    vals = it.f["values"]
    src = tab(vals) if vals.ty == inv.FF else vals.f["0"].t
    got = tab(seg) if seg.ty == inv.FF else seg.f["0"].t
    ptr = it.f["pointers"].t
    i = it.f["index"].p
    ok = got[0] == "slice" and got[1] == src and st.eq(got[2], Poly.atom(("get", ptr, i))) \
        and st.eq(got[3], Poly.atom(("get", ptr, i + 1)))
    c.ob("ENS", "next: yields the slice values[pointers[i] .. pointers[i+1]]", show_term(got)[:300], ok, st)
    c.teq(st, "next: pointers untouched", p.f["pointers"].t, ptr)


# ------------------------------------------------------------------ guards (C13, C16)

@spec("lax::functor::traits::try_define_map_arrow", "lax::functor::traits::map_arrow_witness")
def native_functor_guard(c, a, st, v):
    f = a["f"]
    q0 = hyp(f).f["quotient"].items[0].t
    if is_fail(v):
        # Totality: with no pending unification, absence is possible only if the user's functor breaks its
        # typing contract A_L (F(op) : F(source) -> F(target)), whose arity consequence for the tensor of all
        # operation images is stated here as the lemma LAXFUNCTOR-ARITY-TRUSTED.
        h = hyp(f)
        nodes_t, adj = h.f["nodes"].t, h.f["adjacency"].t
        conds = [("eq", t_len(q0), 0)]
        # the accumulated diagram of the image-accumulation loop, whatever the local is called
        leaves = loopvar_leaves(st, "lax::functor::traits::", None)
        for leg in ("sources", "targets"):
            for lf in leaves:
                if lf[1][-1] == leg and len(lf[1]) == 3:
                    for fkey in functor_keys(st) or [contracts_key(a.get("functor"))]:
                        el = ("LFobj", "map_object", fkey, ("elem", nodes_t))
                        for sizes in (("lens", ("lmap", nodes_t, ("seq", el)), el), ("lens", nodes_t, el)):
                            conds.append(("eq", t_len(lf), t_sum(("gather", sizes, ("flat", adj, ("el", adj, leg))))))
        if len(conds) > 1:
            c.I.lemma_uses["LAXFUNCTOR-ARITY-TRUSTED"] = c.I.lemma_uses.get("LAXFUNCTOR-ARITY-TRUSTED", 0) + 1
        c.rej(st, "native functor path is total on quotient-free diagrams (absence only for pending unifications)", conds)
        return
    c.ob("ACC", "native functor path refuses diagrams with pending unifications",
         "Some ⇒ no pending unification", st.eq(t_len(q0), 0), st)
    r = payload(v)
    if isinstance(r, VTup):
        res, wit = r.items
        n = n_nodes(f)
        c.eq(st, "witness: one segment per input node", t_len(ic_sizes(wit)), n)
        c.eq(st, "witness: values index the result's nodes", tgt(wit.f["values"]), n_nodes(res))
        # content of the witness: node i is related to |F(label of i)| output nodes, in order, and those output
        # nodes carry exactly the labels F(label of i)
        nodes_t = hyp(f).f["nodes"].t
        sizes_ok, labels_ok = False, False
        got_sizes = ic_sizes(wit)
        got_labels = mk_gather(st, normalise(st, hyp(res).f["nodes"].t), normalise(st, tab(wit.f["values"])))
        for fkey in functor_keys(st) or [contracts_key(a.get("functor"))]:
            el = ("LFobj", "map_object", fkey, ("elem", nodes_t))
            for sizes in (("lens", ("lmap", nodes_t, ("seq", el)), el), ("lens", nodes_t, el)):
                if terms_equal(st, got_sizes, sizes):
                    sizes_ok = True
            for flat in (("flat", ("lmap", nodes_t, ("seq", el)), el), ("flat", nodes_t, el)):
                if terms_equal(st, got_labels, flat):
                    labels_ok = True
        c.ob("ENS", "witness: node i is related to |F(label of i)| output nodes",
             f"segment sizes ≡ lens(nodes, F(label)): got {show_term(got_sizes)[:200]}", sizes_ok, st, actual=got_sizes)
        # the node labels of the operation images are the functor's own (arbitrary): a witness that selects among
        # them is wrong for some functor — that is a violation, not an imprecision of the analysis
        into_images = _mentions_loopvar(got_labels, "lax::functor::traits::")
        c.ob("ENS", "witness: the related output nodes carry the labels F(label of i), in order",
             f"gather(result nodes, witness values) ≡ flat(nodes, F(label)): got {show_term(got_labels)[:300]}"
             + (" (selects nodes of the operation images)" if into_images else ""),
             labels_ok, st, actual=None if into_images else got_labels)


def _walk_terms(st, visit):
    def walk_t(t):
        if isinstance(t, tuple):
            visit(t)
            for x in t:
                walk_t(x)
        elif isinstance(t, Poly):
            for a in t.atoms():
                walk_t(a)
    for k, p in st.lin.facts:
        walk_t(p)
    for t in st.bnd:
        walk_t(t)


def _mentions_loopvar(t, fn_suffix):
    if isinstance(t, tuple):
        if len(t) >= 2 and t[0] == "loopvar" and isinstance(t[1], tuple) and t[1] and isinstance(t[1][0], str) \
                and (t[1][0].endswith(fn_suffix) or (fn_suffix.endswith("::") and fn_suffix in t[1][0])):
            return True
        return any(_mentions_loopvar(x, fn_suffix) for x in t)
    if isinstance(t, Poly):
        return any(_mentions_loopvar(a_, fn_suffix) for a_ in t.atoms())
    return False


def loopvar_leaves(st, fn_suffix, var):
    """Leaf terms ('v', ('loopvar', (fn, loop, var), field...)) of a summarised loop mentioned on the path."""
    out = set()

    def visit(t):
        if len(t) == 2 and t[0] == "v" and isinstance(t[1], tuple) and t[1] and t[1][0] == "loopvar" \
                and isinstance(t[1][1], tuple) and (t[1][1][0].endswith(fn_suffix) or (fn_suffix.endswith("::") and fn_suffix in t[1][1][0])) \
                and (var is None or t[1][1][-1] == var):
            out.add(t)
    _walk_terms(st, visit)
    return sorted(out, key=repr)


def contracts_key(v):
    """The name a user-supplied functor argument carries in LFobj / Fmap terms."""
    if isinstance(v, VUser):
        return v.key
    return "functor"


def functor_keys(st):
    out = set()

    def visit(t):
        if len(t) == 4 and t[0] == "LFobj" and t[1] == "map_object":
            out.add(t[2])
    _walk_terms(st, visit)
    return sorted(out, key=repr)


def kahn_flags(st, role="unvisited"):
    """The loop-carried `unvisited` flags of kahn mentioned on the path (the variable is identified by its role in the
    recognised loop, loop_specs.KAHN_ROLES, not by its name)."""
    import loop_specs
    wanted = {roles[role].t for roles in loop_specs.KAHN_ROLES.values() if isinstance(roles.get(role), VSeq)}
    out = set()

    def walk_t(t):
        if isinstance(t, tuple):
            if t in wanted:
                out.add(t)
            for x in t:
                walk_t(x)
        elif isinstance(t, Poly):
            for a in t.atoms():
                walk_t(a)
    for k, p in st.lin.facts:
        walk_t(p)
    for t in st.bnd:
        walk_t(t)
    return out


@spec("strict::eval::eval")
def eval_guard(c, a, st, v):
    flags = kahn_flags(st)
    if not flags:
        # no operation at all, or the loop never ran: flags are the initial fill
        if is_fail(v):
            # ... which is a legitimate refusal only when the layering was entered (the path decided that the initial
            # frontier — the zero positions of the indegrees — is empty) and there is an operation left unvisited
            n_ops = inv.values_len(a["f"].f["h"].f["x"])
            consulted = []

            def visit(t):
                if len(t) == 2 and t[0] in ("nzero", "zero") and isinstance(t[1], tuple):
                    consulted.append(t)
            _walk_terms(st, visit)
            c.ob("REJ", "eval refuses only when some operation is unvisited",
                 "None ⇒ the layering found an unvisited operation (this path returns None without consulting it)",
                 bool(consulted) and st.ge(n_ops, 1), st)
        return
    X = sorted(flags, key=repr)[0]
    # the array whose maximum the guard reads: the loop-carried flags, or the flags after one more step of the loop
    # (when the loop exits after its body)
    tested = set()

    def visit(t):
        if len(t) == 2 and t[0] == "max" and isinstance(t[1], tuple) and (t[1] in flags or (t[1][0] == "sac" and t[1][1] in flags)):
            tested.add(t[1])
    _walk_terms(st, visit)
    if len(tested) == 1:
        X = next(iter(tested))
    m = Poly.atom(("max", X))
    if is_fail(v):
        c.ob("REJ", "eval refuses only when some operation is unvisited", "None ⇒ max(unvisited) >= 1",
             st.ge(m, 1) or st.ge(t_len(X) - Poly.atom(("nzero", X)), 1), st)
    else:
        nz = Poly.atom(("nzero", X))
        c.ob("ACC", "eval evaluates only when every operation was visited", "Some ⇒ unvisited is all zero",
             st.eq(m, 0) or st.eq(t_len(X), 0) or st.eq(nz, t_len(X)), st)


# ------------------------------------------------------------------ morphisms (C18 ERRMAP)

def arrow_conditions(st, arr):
    g, h, w, x = arr.f["source"], arr.f["target"], arr.f["w"], arr.f["x"]
    conds = {}
    conds["TypeMismatchW"] = [("eq", tgt(w), inv.values_len(h.f["w"]))]
    conds["NotNaturalW"] = [("teq", g.f["w"].f["0"].t, mk_gather(st, h.f["w"].f["0"].t, tab(w)))]
    conds["TypeMismatchX"] = [("eq", tgt(x), inv.values_len(h.f["x"]))]
    conds["NotNaturalX"] = [("teq", g.f["x"].f["0"].t, mk_gather(st, h.f["x"].f["0"].t, tab(x)))]
    for leg, name in (("s", "NotNaturalS"), ("t", "NotNaturalT")):
        gs, hs = g.f[leg], h.f[leg]
        conds[name] = [
            ("eq", tgt(gs.f["values"]), t_len(tab(w))),
            ("eq", tgt(x), t_len(ic_sizes(hs))),
            ("teq", ic_sizes(gs), mk_gather(st, ic_sizes(hs), tab(x))),
            ("teq", mk_gather(st, tab(w), tab(gs.f["values"])),
             mk_gather(st, tab(hs.f["values"]), mk_inj(st, ic_sizes(hs), tab(x)))),
            ("eq", tgt(w), tgt(hs.f["values"])),
        ]
    return conds


ARROW_ORDER = ["TypeMismatchW", "NotNaturalW", "TypeMismatchX", "NotNaturalX", "NotNaturalS", "NotNaturalT"]


@spec("strict::hypergraph::arrow::HypergraphArrow::<K, O, A>::validate", "strict::hypergraph::arrow::HypergraphArrow::<K, O, A>::new")
def arrow_validate(c, a, st, v):
    arr = a["self"] if "self" in a else VRec(inv.ARR, {"source": a["source"], "target": a["target"], "w": a["w"], "x": a["x"]})
    conds = arrow_conditions(st, arr)
    if not is_fail(v):
        for name in ARROW_ORDER:
            if name.startswith("NotNatural"):
                c.acc(st, f"accepted ⇒ naturality condition behind {name}", [x for x in conds[name] if x[0] == "teq"])
        return
    e = v.payload[0]
    name = e.variant if isinstance(e, VEnum) else "?"
    if name in conds:
        # the named condition really fails: the rejection path is infeasible if it held
        c.rej(st, f"Err({name}) is reported only when its own condition fails", conds[name])
    else:
        c.ob("REJ", "rejection names a known condition", repr(e)[:100], False, st)


# ------------------------------------------------------------------ input dependence (DEP)

_SEEN_LOOPS = set()


def leaves_of(x, out=None):
    if out is None:
        out = set()
    if isinstance(x, tuple):
        if x and x[0] == "v" and len(x) == 2 and isinstance(x[1], str):
            out.add(x[1])
        if x and x[0] == "loopvar" and len(x) >= 2 and isinstance(x[1], tuple) and len(x[1]) >= 2:
            # a value summarised by a loop depends on whatever the loop reads
            import loops
            key = (x[1][0], x[1][1])
            if key not in _SEEN_LOOPS:
                _SEEN_LOOPS.add(key)
                try:
                    for d in loops.LOOP_DEPS.get(key, ()):
                        out.add(d)
                finally:
                    _SEEN_LOOPS.discard(key)
        for y in x:
            leaves_of(y, out)
    elif isinstance(x, Poly):
        for a_ in x.atoms():
            if isinstance(a_, str):
                out.add(a_)         # a scalar parameter used inside a term (e.g. an index)
            leaves_of(a_, out)
    elif isinstance(x, str):
        pass
    return out


def value_deps(v, out=None):
    if out is None:
        out = set()
    if isinstance(v, VSeq):
        leaves_of(v.t, out)
    elif isinstance(v, VNat):
        for a_ in v.p.atoms():
            if isinstance(a_, str):
                out.add(a_)
            leaves_of(a_, out)
    elif isinstance(v, VBool):
        leaves_of(v.f, out)
        _formula_atoms(v.f, out)
    elif isinstance(v, VRec):
        for x in v.f.values():
            value_deps(x, out)
    elif isinstance(v, VTup):
        for x in v.items:
            value_deps(x, out)
    elif isinstance(v, VEnum):
        for x in v.payload:
            if isinstance(x, V):
                value_deps(x, out)
    return out


def _formula_atoms(f, out):
    if isinstance(f, tuple):
        for x in f:
            if isinstance(x, Poly):
                for a_ in x.atoms():
                    if isinstance(a_, str):
                        out.add(a_)
                    leaves_of(a_, out)
            elif isinstance(x, tuple):
                _formula_atoms(x, out)


def outcome_deps(st, v, n_facts0=0, n_teq0=0):
    """Leaves the outcome depends on: through its value (data) and through the decisions taken on
    the path (control).  Facts assumed about the arguments before the call are not dependences."""
    out = value_deps(v)
    for k, p in st.lin.facts[n_facts0:]:
        for a_ in p.atoms():
            if isinstance(a_, str):
                out.add(a_)
            leaves_of(a_, out)
    for (x, y, _) in st.tne:
        leaves_of(x, out)
        leaves_of(y, out)
    for (x, y) in st.teq[n_teq0:]:
        leaves_of(x, out)
        leaves_of(y, out)
    for (key, pol) in st.unk:
        leaves_of(key, out)
    return out


DEP_TABLE = {
    "strict::open_hypergraph::arrow::OpenHypergraph::<K, O, A>::is_monogamous":
        ["self.s.table", "self.t.table", "self.h.s.values.table", "self.h.t.values.table"],
    "acyclic::<impl strict::hypergraph::object::Hypergraph<K, O, A>>::is_acyclic":
        ["self.s.values.table", "self.t.values.table", "self.s.sources.table", "self.t.sources.table"],
    "strict::open_hypergraph::arrow::OpenHypergraph::<K, O, A>::is_acyclic":
        ["self.h.s.values.table", "self.h.t.values.table"],
    "strict::hypergraph::object::Hypergraph::<K, O, A>::in_degree": ["self.t.values.table", "node"],
    "strict::hypergraph::object::Hypergraph::<K, O, A>::out_degree": ["self.s.values.table", "node"],
    "strict::hypergraph::arrow::HypergraphArrow::<K, O, A>::is_monomorphism": ["self.w.table", "self.x.table"],
    "strict::hypergraph::arrow::HypergraphArrow::<K, O, A>::is_convex_subgraph":
        ["self.w.table", "self.x.table", "self.target.s.values.table", "self.target.t.values.table"],
    "strict::layer::layer": ["f.h.s.values.table", "f.h.t.values.table"],
    "strict::eval::eval": ["f.s.table", "f.t.table", "f.h.s.values.table", "f.h.t.values.table", "f.h.x.0", "s"],
}


def dep_check(c, a, outs, path, n_facts0=0, n_teq0=0):
    for suffix, needed in DEP_TABLE.items():
        if not path.endswith(suffix):
            continue
        seen = set()
        for (st, v, ctl) in outs:
            seen |= outcome_deps(st, v, n_facts0, n_teq0)
        for leafname in needed:
            ok = leafname in seen
            c.count += 1
            c.I.oblige("DEP", c.fr, c.node, "input dependence", f"the result depends on {leafname}", ok,
                       "dataflow" if ok else "", detail="" if ok else
                       "no outcome of the function has data or control dependence on this input")


_old_run = run


def run(sc, res):
    _old_run(sc, res)
    c = Ctx(sc, res)
    dep_check(c, deref_args(res), res["outs"], res["fn"]["path"], res.get("n_facts0", 0), res.get("n_teq0", 0))


# ------------------------------------------------------------------ deletion (C11 COVER on the open level)

@spec(f"{L_OH}::delete_nodes")
def lax_delete_nodes(c, a, st, v):
    f = a["self"]
    p = post_self(c, st)
    for fld in ("sources", "targets"):
        t = p.f[fld].t
        old = f.f[fld].t
        ok = (t == old) or (t[0] == "filtermap" and t[1] == old and mentions_gather_of(t[2], old)) or (old == EMPTY and t == EMPTY)
        c.ob("ENS", f"delete_nodes: {fld} are filtered and renumbered through the reported map",
             f"{fld} ≡ filter_map(old {fld}, map): got {show_term(t)[:200]}", ok, st, actual=t)


def _has_head(x, heads):
    if isinstance(x, tuple):
        if x and isinstance(x[0], str) and x[0] in heads:
            return True
        return any(_has_head(y, heads) for y in x)
    if isinstance(x, Poly):
        return any(_has_head(a_, heads) for a_ in x.atoms())
    return False


def _mentions_term(x, t):
    if x == t:
        return True
    if isinstance(x, tuple):
        return any(_mentions_term(y, t) for y in x)
    if isinstance(x, Poly):
        return any(_mentions_term(a_, t) for a_ in x.atoms())
    return False


def mentions_gather_of(x, idx):
    if isinstance(x, tuple):
        if len(x) == 3 and x[0] == "gather" and x[2] == idx:
            return True
        return any(mentions_gather_of(y, idx) for y in x)
    if isinstance(x, Poly):
        return any(mentions_gather_of(a_, idx) for a_ in x.atoms())
    return False


@spec(f"{L_H}::delete_nodes_witness")
def lax_delete_nodes_witness(c, a, st, v):
    f = a["self"]
    p = post_self(c, st)
    L = f.f["adjacency"].t
    got = p.f["adjacency"].t
    if got == L:
        return      # nothing removed on this path
    ok = False
    if got[0] == "lmap" and got[1] == L:
        body = lax_model.thaw(got[2])
        ok = True
        for fld in ("sources", "targets"):
            t = body.f[fld].t
            old = ("el", L, fld)
            if not (t[0] == "filtermap" and t[1] == old and mentions_gather_of(t[2], old)):
                ok = False
    c.ob("ENS", "delete_nodes_witness: every hyperedge's sources and targets are filtered and renumbered through the map",
         f"adjacency ≡ map(e -> filter_map through the renumber map): got {show_term(got)[:300]}", ok or L == EMPTY, st,
         actual=got if opaque(got) else None)
    q0, q1 = p.f["quotient"].items[0].t, p.f["quotient"].items[1].t
    c.ob("ENS", "delete_nodes_witness: the pending unifications stay pairs (both columns keep or drop a pair together)",
         f"len(quotient.0') == len(quotient.1'): {show_term(q0)[:120]} / {show_term(q1)[:120]}",
         st.eq(t_len(q0), t_len(q1)), st, actual=(q0, q1) if (opaque(q0) or opaque(q1)) else None)
    # content of the surviving pairs: each column is read off the OLD pairs (zipped), kept only where BOTH endpoints
    # survive, and renumbered through the map — whatever loop / iterator form computes it
    o0, o1 = f.f["quotient"].items[0].t, f.f["quotient"].items[1].t
    for k_, (t_, own) in enumerate(((q0, o0), (q1, o1))):
        if t_ == own or (own == EMPTY and t_ == EMPTY):
            continue
        summarised = imprecise(t_) and not _mentions_term(t_, own)
        ok_ = _mentions_term(t_, ("zip", o0, o1)) and mentions_gather_of(t_, o0) and mentions_gather_of(t_, o1) \
            and not _has_head(t_, ("mapwhile", "takewhile", "slice"))      # a prefix / window is not a filter
        c.ob("ENS", f"delete_nodes_witness: pending column {k_} = the old pairs whose BOTH endpoints survive, renumbered",
             f"quotient.{k_}' is read off zip(quotient.0, quotient.1) through the map at both endpoints: got {show_term(t_)[:240]}",
             ok_, st, actual=("v", "top:summarised") if (summarised and not ok_) else None)
    c.eq(st, "delete_nodes_witness: the reported map has one entry per old node", t_len(v.t), t_len(f.f["nodes"].t))
    c.teq(st, "delete_nodes_witness: hyperedge labels untouched", p.f["edges"].t, f.f["edges"].t)


# ------------------------------------------------------------------ predicates: exact on the cases the code shape decides

def bool_iff(c, st, v, expected, what):
    """The boolean outcome v equals the formula `expected` on this path (both directions)."""
    f = v.f if isinstance(v, VBool) else None
    if f is None:
        c.ob("ENS", what, "boolean result expected", False, st)
        return
    f, expected = _norm_formula(st, f), _norm_formula(st, expected)
    bad1 = c.I.assume(st.copy(), f_and(f, f_not(expected)))
    bad2 = c.I.assume(st.copy(), f_and(f_not(f), expected))
    ok = not bad1 and not bad2
    # a result (or a decision on the path) that is an uninterpreted boolean — an unknown call, `all`/`any` over a
    # list, a flag vector — can be neither confirmed nor refuted against the definition
    opaque_bool = _has_unk(f) or any(not _known_unk(k) for (k, _) in st.unk) or bool(st.tne) \
        or len(st.teq) > c.res.get("n_teq0", 0)      # decisions on whole-array comparisons
    c.ob("ENS", what, f"result ⇔ {show_formula(expected)} (got {show_formula(f)})", ok, st,
         actual=("v", "top:uninterpreted boolean") if opaque_bool else None)


def _norm_formula(st, f):
    if isinstance(f, tuple) and len(f) == 3 and f[0] == "teq":
        # X ≡ [1, 1, .., 1]  ⇔  X has no zero and no entry above 1 (rule ALL-ONES), for X of that length
        for x, y in ((f[1], f[2]), (f[2], f[1])):
            y = normalise(st, y)
            if y[0] == "fill" and st.eq(as_poly(y[1]), 1) and st.eq(t_len(x), as_poly(y[2])):
                x = normalise(st, x)
                return f_and(("cmp", "eq", Poly.atom(("nzero", x))), ("cmp", "ge", Poly.const(1) - Poly.atom(("max", x)))) \
                    if not st.eq(t_len(x), 0) else ("true",)
    if isinstance(f, tuple):
        return tuple(_norm_formula(st, x) for x in f)
    if isinstance(f, Poly):
        return normalise_poly(st, f)
    return f


def _has_unk(f):
    if isinstance(f, tuple):
        if f and f[0] == "unk":
            return True
        return any(_has_unk(x) for x in f)
    return False


def _known_unk(key):
    """Uninterpreted facts whose meaning the specs know (parameters, the var test of Forget)."""
    return isinstance(key, tuple) and key and key[0] in ("param", "eq", "user-contract")


def injective_formula(st, ff_):
    """Injectivity in terms of occurrence counts: empty, or every value occurs at most once."""
    n = t_len(tab(ff_))
    m = Poly.atom(("max", ("bincount", tab(ff_), tgt(ff_))))
    if st.eq(n, 0):
        return ("true",)
    return ("cmp", "ge", Poly.const(1) - m)


def path_has_atom(st, atom):
    for k, p in st.lin.facts:
        if atom in p.atoms():
            return True
    return False


@spec(f"{FFN}::<K>::is_injective")
def ff_is_injective(c, a, st, v):
    f = a["self"]
    n = t_len(tab(f))
    if st.eq(n, 0):
        bool_iff(c, st, v, ("true",), "is_injective: a function from the empty set is injective")
        return
    m = ("max", ("bincount", tab(f), tgt(f)))
    if path_has_atom(st, m) or (isinstance(v, VBool) and m in _formula_atoms_set(v.f)):
        bool_iff(c, st, v, ("cmp", "ge", Poly.const(1) - Poly.atom(m)),
                 "is_injective ⇔ no value of the codomain is hit more than once")


def _formula_atoms_set(f):
    out = set()
    if isinstance(f, tuple):
        for x in f:
            if isinstance(x, Poly):
                out |= x.atoms()
            elif isinstance(x, tuple):
                out |= _formula_atoms_set(x)
    return out


@spec("strict::hypergraph::arrow::HypergraphArrow::<K, O, A>::is_monomorphism")
def arrow_is_mono(c, a, st, v):
    arr = a["self"]
    e = ("true",)
    decidable = True
    for leg in ("w", "x"):
        f = arr.f[leg]
        if st.eq(t_len(tab(f)), 0):
            continue
        m = ("max", ("bincount", tab(f), tgt(f)))
        if not (path_has_atom(st, m) or (isinstance(v, VBool) and m in _formula_atoms_set(v.f))):
            if isinstance(v, VBool) and v.f == ("false",):
                # short-circuit: the other map already decided; nothing to say about this one
                decidable = False
                continue
            decidable = False
            continue
        e = f_and(e, ("cmp", "ge", Poly.const(1) - Poly.atom(m)))
    if decidable:
        bool_iff(c, st, v, e, "is_monomorphism ⇔ both maps hit no value more than once (empty maps are injective)")
    elif isinstance(v, VBool) and v.f == ("true",):
        c.ob("ENS", "is_monomorphism: true only when both maps were examined", "true ⇒ both injectivity tests on the path", False, st)


@spec(f"{S_OH}::<K, O, A>::is_monogamous")
def oh_is_monogamous(c, a, st, v):
    f = a["self"]
    nw = inv.values_len(f.f["h"].f["w"])
    if st.eq(nw, 0):
        bool_iff(c, st, v, ("true",), "is_monogamous: the diagram without nodes is monogamous (vacuously)")
        return
    if not st.ge(nw, 1):
        return
    # Definition (doc comment): both interface maps injective, and for every node
    # in-degree + #occurrences in the source interface = 1, out-degree + #occurrences in the target interface = 1.
    # "X is all ones" is stated through the two array observations the contract offers for it:
    # X has no zero entry and max(X) <= 1  (rule ALL-ONES).
    h = f.f["h"]
    def bc(t):
        return ("bincount", t, nw)
    e = ("true",)
    atoms = []
    for leg in ("s", "t"):
        m = ("max", bc(tab(f.f[leg])))
        atoms.append(m)
        e = f_and(e, ("cmp", "ge", Poly.const(1) - Poly.atom(m)))
    for deg, cnt in ((tab(h.f["t"].f["values"]), tab(f.f["s"])), (tab(h.f["s"].f["values"]), tab(f.f["t"]))):
        x = mk_add(st, bc(deg), bc(cnt))
        if not path_has_atom(st, ("len", ("zero", x))) and not path_has_atom(st, ("max", x)) and \
                not (isinstance(v, VBool) and (("max", x) in _formula_atoms_set(v.f) or ("len", ("zero", x)) in _formula_atoms_set(v.f))):
            y = mk_add(st, bc(cnt), bc(deg))
            if path_has_atom(st, ("len", ("zero", y))) or path_has_atom(st, ("max", y)):
                x = y
        e = f_and(e, f_and(("cmp", "eq", t_len(("zero", x))), ("cmp", "ge", Poly.const(1) - Poly.atom(("max", x)))))
    bool_iff(c, st, v, e, "is_monogamous ⇔ both interfaces injective and (degree + interface count) has no zero and no entry above 1, "
                          "on the source side (in-degrees) and on the target side (out-degrees)")


@spec("acyclic::<impl strict::hypergraph::object::Hypergraph<K, O, A>>::is_acyclic", f"{S_OH}::<K, O, A>::is_acyclic")
def h_is_acyclic(c, a, st, v):
    s_ = a["self"]
    h = s_.f["h"] if s_.ty == inv.SOH else s_
    if st.eq(inv.values_len(h.f["w"]), 0):
        bool_iff(c, st, v, ("true",), "is_acyclic: no nodes, no cycle")
    elif st.eq(inv.values_len(h.f["x"]), 0):
        # no hyperedges: nothing can reach anything
        flags = kahn_flags(st)
        if not flags:
            return


@spec("strict::hypergraph::arrow::HypergraphArrow::<K, O, A>::is_convex_subgraph")
def arrow_is_convex(c, a, st, v):
    arr = a["self"]
    if st.eq(t_len(tab(arr.f["w"])), 0) and st.eq(t_len(tab(arr.f["x"])), 0):
        bool_iff(c, st, v, ("true",), "is_convex_subgraph: the empty sub-hypergraph is convex")
    # convex ⇒ monomorphism: on every path that can answer `true`, both maps are known to hit no value twice
    f = v.f if isinstance(v, VBool) else None
    if f is None or f == ("false",):
        return
    for leg, nm in (("w", "node"), ("x", "edge")):
        m = arr.f[leg]
        if st.eq(t_len(tab(m)), 0):
            continue
        goal = ("cmp", "ge", Poly.const(1) - Poly.atom(("max", ("bincount", tab(m), tgt(m)))))
        bad = c.I.assume(st.copy(), f_and(f, f_not(goal)))
        c.ob("ENS", f"is_convex_subgraph: true only for monomorphisms (the {nm} map is injective)",
             f"result ⇒ {show_formula(goal)}", not bad, st)


@spec("lax::var::operators::<")
def var_operator(c, a, st, v):
    """`x <op> y` on Vars adds ONE hyperedge labelled with the operator, whose sources are a fresh use of x then a
    fresh use of y — the operands in the order written — and whose single target is the fresh definition of the
    result (C19: 'a term means the expression written')."""
    ops = [x for x in a.values() if isinstance(x, VRec) and x.ty.endswith("var::Var")]
    if not ops or not isinstance(ops[0].f.get("state"), VMutRef):
        return
    post = c.I.read_place(st, ops[0].f["state"].place)
    h = hyp(post)
    nodes = normalise(st, h.f["nodes"].t)
    parts = list(nodes[1:]) if nodes[0] == "concat" else [nodes]
    n_new = len(ops) + 1
    added = parts[-n_new:] if len(parts) > n_new else []
    base = mk_concat(parts[:-n_new]) if added else None
    want = [("single", ("user", o.f["label"].key)) if isinstance(o.f["label"], VUser) else None for o in ops]
    ok = bool(added) and all(w is not None and added[i] in (w, ("single", w[1][1])) for i, w in enumerate(want))
    c.ob("ENS", "operator: one fresh use per operand, in the order written",
         f"nodes' ≡ nodes ++ [label of operand 1, .., label of the result]: got {show_term(nodes)[:260]}", ok, st,
         actual=nodes)


@spec("lax::var::forget::ForgetMonogamous as lax::functor::traits::Functor<O, A, O, A>>::map_operation")
def forget_monogamous_map_operation(c, a, st, v):
    """forget_monogamous: the same replacement, but only for 1 → 1 variable hyperedges."""
    forget_map_operation(c, a, st, v)
    h = hyp(v)
    if not st.eq(t_len(h.f["edges"].t), 1):
        ns, nt = t_len(a["source"].t), t_len(a["target"].t)
        c.ob("ENS", "forget_monogamous removes only 1 → 1 variable hyperedges",
             f"hyperedge removed ⇒ len(source) == 1 ∧ len(target) == 1 on this path (got {show_poly(ns)}, {show_poly(nt)})",
             st.eq(ns, 1) and st.eq(nt, 1), st)


@spec("lax::var::forget::Forget as lax::functor::traits::Functor<O, A, O, A>>::map_operation")
def forget_map_operation(c, a, st, v):
    """Forget replaces exactly the variable-labelled operations; every other operation is kept as it is."""
    h = hyp(v)
    edges = h.f["edges"].t
    s_, t_ = a["source"].t, a["target"].t
    is_var = any(isinstance(k, tuple) and k and k[0] == "eq" and "HasVar::var" in k and truth for (k, truth) in st.unk)
    if st.eq(t_len(edges), 1):
        ns, nt = t_len(s_), t_len(t_)
        c.teq(st, "forget keeps the operation: nodes = source type then target type", h.f["nodes"].t, mk_concat([s_, t_]))
        c.teq(st, "forget keeps the operation: sources 0..|s|", v.f["sources"].t, mk_arange(0, ns))
        c.teq(st, "forget keeps the operation: targets |s|..|s|+|t|", v.f["targets"].t, mk_arange(ns, ns + nt))
        import contracts_lax
        if is_var:
            not_all_equal = any(isinstance(k, tuple) and k and k[0] == "all" and not truth for (k, truth) in st.unk)
            # ... or, written out for short lists, one failed comparison between two incident labels
            leaves = {s_, t_}

            def incident(x):
                return isinstance(x, tuple) and len(x) >= 2 and x[0] in ("get", "elem") and x[1] in leaves
            not_all_equal = not_all_equal or any(
                isinstance(k, tuple) and len(k) == 3 and k[0] == "eq" and not truth and incident(k[1]) and incident(k[2])
                for (k, truth) in st.unk)
            c.ob("ENS", "forget keeps a variable-labelled hyperedge only if its incident labels are not all equal",
                 "kept ∧ a == var ⇒ the path established that some label differs", not_all_equal, st)
        c.ob("ENS", "forget keeps the operation: the hyperedge carries the operation's own label",
             f"edges ≡ [a]: got {show_term(edges)[:200]}", edges == ("single", ("user", contracts_lax.key_of(a["a"]))) or edges == ("single", contracts_lax.key_of(a["a"])), st)
    else:
        c.ob("ENS", "forget removes a hyperedge only if it is variable-labelled",
             "hyperedge removed ⇒ the path established a == HasVar::var()", is_var, st)
        # ... and only if its incident nodes all carry one label: the path decided `all equal` over the source AND the
        # target labels (or, written out for short lists, compared a source label with a target label)
        ns0, nt0 = t_len(s_), t_len(t_)
        need = [show_term(x) for x, n in ((s_, ns0), (t_, nt0)) if not st.eq(n, 0)]
        uniform = len(need) == 0 or (len(need) == 1 and (st.eq(ns0 + nt0, 1)))
        pieces = [k[3] for (k, truth) in st.unk if truth and isinstance(k, tuple) and len(k) == 4 and k[0] == "all"]
        if len(pieces) > 1:
            # the comparison split over several lists (the rest of the sources, then the targets, ...)
            rest = lax_model.mk_slice(st, mk_concat([s_, t_]), Poly.const(1), ns0 + nt0)
            if terms_equal(st, mk_concat(pieces), rest) or terms_equal(st, mk_concat(list(reversed(pieces))), rest):
                uniform = True
        for (k, truth) in st.unk:
            if not truth or not isinstance(k, tuple) or not k:
                continue
            if k[0] == "all":
                # `all` over the concatenation of both lists after its first element (compared with that element)
                rest = lax_model.mk_slice(st, mk_concat([s_, t_]), Poly.const(1), ns0 + nt0)
                if str(k[1]) in (show_term(rest), show_term(normalise(st, rest))) or \
                        (len(need) == 2 and all(nm in str(k[1]) for nm in need)):
                    uniform = True
            if k[0] == "eq" and len(k) == 3 and all(isinstance(x, tuple) and len(x) >= 2 and x[0] in ("get", "elem") for x in k[1:]) \
                    and {k[1][1], k[2][1]} == {s_, t_} and st.eq(ns0, 1) and st.eq(nt0, 1):
                uniform = True
        c.ob("ENS", "forget removes a hyperedge only if all its incident labels are equal",
             "hyperedge removed ⇒ the path established that the source and target labels are all equal "
             f"(over {', '.join(need) or 'nothing'})", uniform, st)
        # ... and replaces it by ONE merged node carrying every source and target position (nothing at all for 0 → 0)
        ns, nt = t_len(s_), t_len(t_)
        nodes = h.f["nodes"].t
        if st.eq(ns, 0) and st.eq(nt, 0):
            c.eq(st, "forget: a 0 → 0 variable disappears", t_len(nodes), 0)
        else:
            c.eq(st, "forget: a variable becomes a single merged node", t_len(nodes), 1)
            c.teq(st, "forget: every source position is the merged node", v.f["sources"].t, ("fill", Poly.const(0), ns))
            c.teq(st, "forget: every target position is the merged node", v.f["targets"].t, ("fill", Poly.const(0), nt))


@spec(f"{S_H}::<K, O, A>::is_discrete")
def h_is_discrete(c, a, st, v):
    h = a["self"]
    e = f_and(f_and(("cmp", "eq", t_len(ic_sizes(h.f["s"]))), ("cmp", "eq", t_len(ic_sizes(h.f["t"])))),
              ("cmp", "eq", inv.values_len(h.f["x"])))
    bool_iff(c, st, v, e, "is_discrete ⇔ no hyperedges (no source lists, no target lists, no labels)")


# ------------------------------------------------------------------ remaining small operations

@spec(f"<{FFN}<K> as category::traits::Arrow>::source", f"<{FFN}<K> as indexed_coproduct::arrow::HasLen<K>>::len")
def ff_source(c, a, st, v):
    c.eq(st, "source/len = length of the table", v.p, t_len(tab(a["self"])))


@spec(f"<{FFN}<K> as category::traits::Arrow>::target")
def ff_target(c, a, st, v):
    c.eq(st, "target = declared codomain", v.p, tgt(a["self"]))


@spec(f"{FFN}::<K>::coequalizer_universal")
def ff_coeq_universal(c, a, st, v):
    q, f = a["self"], a["f"]
    if is_fail(v):
        return
    r = payload(v)
    c.acc(st, "universal map exists only for matching lengths", [("eq", t_len(tab(q)), t_len(tab(f)))])
    c.teq(st, "q ; u == f on the Some path", ("gather", tab(r), tab(q)), tab(f))
    c.eq(st, "universal map: one value per class", t_len(tab(r)), tgt(q))
    c.eq(st, "universal map: codomain of f", tgt(r), tgt(f))


@spec(f"{FFN}::<K>::transpose")
def ff_transpose(c, a, st, v):
    x, y = a["a"].p, a["b"].p
    if st.eq(x, 0):
        c.eq(st, "transpose(0,b): empty", t_len(tab(v)), 0)
        return
    c.eq(st, "transpose(a,b): a*b entries", t_len(tab(v)), x * y)
    c.eq(st, "transpose(a,b): permutation of a*b", tgt(v), x * y)


@spec(f"{FFN}::<K>::cumulative_sum")
def ff_cumulative_sum(c, a, st, v):
    f = a["self"]
    n = t_len(tab(f))
    c.eq(st, "cumulative_sum: one entry per input", t_len(tab(v)), n)
    c.eq(st, "cumulative_sum: codomain = total (documented)", tgt(v), t_sum(tab(f)))


@spec(f"{ICN}::<K, F>::indexed_values")
def ic_indexed_values(c, a, st, v):
    x, m = a["self"], a["x"]
    cond = [("eq", tgt(m), t_len(ic_sizes(x)))]
    if is_fail(v):
        c.rej(st, "indexed_values defined iff x lands in the segments", cond)
        return
    r = payload(v)
    c.acc(st, "indexed_values defined iff x lands in the segments", cond)
    vals = x.f["values"]
    src = tab(vals) if vals.ty == inv.FF else vals.f["0"].t
    got = tab(r) if r.ty == inv.FF else r.f["0"].t
    c.teq(st, "indexed_values = values re-indexed block-wise along x", got, ("gather", src, mk_inj(st, ic_sizes(x), tab(m))))


@spec(f"{ICN}::<K, F>::len", f"<{ICN}<K, F> as indexed_coproduct::arrow::HasLen<K>>::len")
def ic_len(c, a, st, v):
    c.eq(st, "len = number of segments", v.p, t_len(ic_sizes(a["self"])))


@spec("IntoIterator for indexed_coproduct::arrow::IndexedCoproduct<")
def ic_into_iter(c, a, st, v):
    x = a["self"]
    c.teq(st, "into_iter: pointers = cumulative sum of the sizes", v.f["pointers"].t, ("cumsum", ic_sizes(x)))
    c.eq(st, "into_iter: cursor starts at 0", v.f["index"].p, 0)


@spec("operations::Operations::<K, O, A>::len")
def ops_len(c, a, st, v):
    c.eq(st, "Operations::len = number of labels", v.p, inv.values_len(a["self"].f["x"]))


@spec("operations::Operations::<K, O, A>::singleton")
def ops_singleton(c, a, st, v):
    c.eq(st, "singleton: one operation", inv.values_len(v.f["x"]), 1)
    c.teq(st, "singleton: its source type", v.f["a"].f["values"].f["0"].t, a["a"].f["0"].t)
    c.teq(st, "singleton: its target type", v.f["b"].f["values"].f["0"].t, a["b"].f["0"].t)


@spec("semifinite::types::SemifiniteFunction::<K, T>::coproduct", "<&semifinite::types::SemifiniteFunction<K, T> as std::ops::Add<",
      "<semifinite::types::SemifiniteFunction<K, T> as std::ops::Add>::add")
def semi_coproduct(c, a, st, v):
    x, y = list(a.values())[:2]
    r = payload(v)
    c.teq(st, "semifinite coproduct = concatenation", r.f["0"].t, mk_concat([x.f["0"].t, y.f["0"].t]))


@spec("semifinite::types::SemifiniteFunction::<K, T>::len", "<semifinite::types::SemifiniteFunction<K, T> as indexed_coproduct::arrow::HasLen<K>>::len")
def semi_len(c, a, st, v):
    c.eq(st, "len = array length", v.p, t_len(a["self"].f["0"].t))


@spec("semifinite::types::SemifiniteFunction::<K, T>::singleton")
def semi_singleton(c, a, st, v):
    c.eq(st, "singleton: one element", t_len(v.f["0"].t), 1)


@spec(f"{S_H}::<K, O, A>::empty")
def h_empty(c, a, st, v):
    c.eq(st, "empty: no nodes", inv.values_len(v.f["w"]), 0)
    c.eq(st, "empty: no edges", inv.values_len(v.f["x"]), 0)


def degree_spec(c, a, st, v, leg):
    h = a["self"]
    want = Poly.atom(("get", ("bincount", tab(h.f[leg].f["values"]), inv.values_len(h.f["w"])), a["node"].p))
    c.eq(st, f"degree = number of occurrences of the node in the {leg}-incidence (with multiplicity)", v.p, want)


@spec(f"{S_H}::<K, O, A>::in_degree")
def h_in_degree(c, a, st, v):
    degree_spec(c, a, st, v, "t")


@spec(f"{S_H}::<K, O, A>::out_degree")
def h_out_degree(c, a, st, v):
    degree_spec(c, a, st, v, "s")


@spec(f"{S_H}::<K, O, A>::tensor_operations")
def h_tensor_operations(c, a, st, v):
    # the parameter is destructured in the signature: Operations { x, a, b }
    ops = list(a.values())[0]
    if not isinstance(ops, VRec):
        return
    na = inv.values_len(ops.f["a"].f["values"])
    nb = inv.values_len(ops.f["b"].f["values"])
    c.teq(st, "tensor_operations: sources are the first block of nodes", tab(v.f["s"].f["values"]), mk_arange(0, na))
    c.teq(st, "tensor_operations: targets are the second block of nodes", tab(v.f["t"].f["values"]), mk_arange(na, na + nb))
    c.teq(st, "tensor_operations: node labels = source types then target types", v.f["w"].f["0"].t,
          mk_concat([ops.f["a"].f["values"].f["0"].t, ops.f["b"].f["values"].f["0"].t]))
    c.teq(st, "tensor_operations: edge labels as given", v.f["x"].f["0"].t, ops.f["x"].f["0"].t)


@spec("strict::layer::layered_operations")
def layered_ops_spec(c, a, st, v):
    f = a["f"]
    nx = inv.values_len(f.f["h"].f["x"])
    layers, flags = v.items
    c.eq(st, "layered_operations: one flag per operation", t_len(flags.t), nx)


@spec(f"{L_H}::empty", f"{L_OH}::empty")
def lax_empty(c, a, st, v):
    lax_discrete(c, st, v, EMPTY, "empty")
    if v.ty == LOH:
        c.eq(st, "empty: no interfaces", t_len(v.f["sources"].t) + t_len(v.f["targets"].t), 0)


@spec(f"{L_H}::map_nodes", f"{L_OH}::map_nodes")
def lax_map_nodes(c, a, st, v):
    h0, h1 = hyp(a["self"]), hyp(v)
    c.eq(st, "map_nodes: one label per node", t_len(h1.f["nodes"].t), t_len(h0.f["nodes"].t))
    same_lax_hypergraph(c, st, h1, h0, "map_nodes", except_=("nodes",))


@spec(f"{L_H}::map_edges", f"{L_OH}::map_edges")
def lax_map_edges(c, a, st, v):
    h0, h1 = hyp(a["self"]), hyp(v)
    c.eq(st, "map_edges: one label per edge", t_len(h1.f["edges"].t), t_len(h0.f["edges"].t))
    same_lax_hypergraph(c, st, h1, h0, "map_edges", except_=("edges",))


@spec(f"{L_H}::delete_edges", f"{L_H}::delete_edge", f"{L_OH}::delete_edges")
def lax_delete_edges(c, a, st, v):
    f = a["self"]
    p = post_self(c, st)
    h0, h1 = hyp(f), hyp(p)
    c.teq(st, "delete_edges: nodes untouched", h1.f["nodes"].t, h0.f["nodes"].t)
    for i in (0, 1):
        c.teq(st, f"delete_edges: pending unifications untouched ({i})", h1.f["quotient"].items[i].t, h0.f["quotient"].items[i].t)
    if f.ty == LOH:
        same_interfaces(c, st, p, f, "delete_edges")
    e0, a0, e1, a1 = h0.f["edges"].t, h0.f["adjacency"].t, h1.f["edges"].t, h1.f["adjacency"].t
    if not (e1 == e0 and a1 == a0):
        ok = e1[0] == "sel" and a1[0] == "sel" and e1[1] == e0 and a1[1] == a0 and e1[2] == a1[2]
        c.ob("ENS", "delete_edges: labels and incidence lists are kept in step (both are the sub-lists selected by one mask)",
             f"edges' ≡ sel(edges, M) and adjacency' ≡ sel(adjacency, M): got {show_term(e1)[:120]} / {show_term(a1)[:120]}",
             ok, st, actual=(e1, a1))
    c.ob("ENS", "delete_edges: never grows", "len(edges') <= len(edges)",
         st.ge(t_len(h0.f["edges"].t), t_len(h1.f["edges"].t)) or imprecise(h1.f["edges"].t), st)


@spec(f"{L_H}::from_strict")
def lax_h_from_strict(c, a, st, v):
    h = a["h"]
    c.teq(st, "from_strict: node labels", v.f["nodes"].t, h.f["w"].f["0"].t)
    c.teq(st, "from_strict: edge labels", v.f["edges"].t, h.f["x"].f["0"].t)
    c.eq(st, "from_strict: no pending unifications", t_len(v.f["quotient"].items[0].t) + t_len(v.f["quotient"].items[1].t), 0)


@spec(f"{L_H}::to_hypergraph")
def lax_to_hypergraph(c, a, st, v):
    h = a["self"]
    c.teq(st, "to_hypergraph: node labels kept", v.f["w"].f["0"].t, h.f["nodes"].t)
    c.teq(st, "to_hypergraph: edge labels kept", v.f["x"].f["0"].t, h.f["edges"].t)
    L = h.f["adjacency"].t
    c.teq(st, "to_hypergraph: source arities = lengths of the per-edge source lists", ic_sizes(v.f["s"]), ("lens", L, ("el", L, "sources")))
    c.teq(st, "to_hypergraph: target arities = lengths of the per-edge target lists", ic_sizes(v.f["t"]), ("lens", L, ("el", L, "targets")))
    c.teq(st, "to_hypergraph: source incidence = concatenated source lists", tab(v.f["s"].f["values"]), ("flat", L, ("el", L, "sources")))
    c.teq(st, "to_hypergraph: target incidence = concatenated target lists", tab(v.f["t"].f["values"]), ("flat", L, ("el", L, "targets")))


@spec("lax::functor::dyn_functor::Identity as lax::functor::traits::Functor<O, A, O, A>>::map_operation")
def lax_identity_map_operation(c, a, st, v):
    s_, t_ = a["source"].t, a["target"].t
    h = hyp(v)
    c.teq(st, "identity functor: operation image has the operation's source type", mk_gather(st, h.f["nodes"].t, v.f["sources"].t), s_)
    c.teq(st, "identity functor: operation image has the operation's target type", mk_gather(st, h.f["nodes"].t, v.f["targets"].t), t_)
    c.eq(st, "identity functor: one hyperedge", t_len(h.f["edges"].t), 1)


@spec("DynFunctor<F, O1, A1, O2, A2> as strict::functor::traits::Functor<array::vec::vec_array::VecKind, O1, A1, O2, A2>>::map_object")
def dyn_map_object(c, a, st, v):
    x = a["a"].f["0"].t
    c.eq(st, "DynFunctor::map_object: one block per label", t_len(ic_sizes(v)), t_len(x))


# ------------------------------------------------------------------ VECSPEC (C07): Vec backend vs the array contract

def vec_conformance(sc, res):
    import vecspec
    c = Ctx(sc, res)
    ref = res["vec_ref"]
    name = res["fn"]["name"]
    if "error" in ref:
        c.ob("ENS", f"{name}: contract reference", "the contract's transfer function applies to the arguments: " + ref["error"],
             False, res["st0"])
        return
    for (st, v, ctl) in res["outs"]:
        if ctl is not None:
            continue
        matched = False
        shown = []
        for r in ref["refs"]:
            extra = r["st"].lin.facts[ref["n_facts"]:]
            if not all((st.eq(p, 0) if k == "eq" else st.ge(p, 0) if k == "ge" else st.ne(p, 0)) for (k, p) in extra
                       if not _assumption_fact(res["st0"], k, p)):
                continue
            ok = vecspec.same_value(st, v, r["ret"])
            for root in ref["mut_roots"]:
                ok = ok and vecspec.same_value(st, st.env[root], r["posts"][root])
            shown.append((r, ok))
            if ok:
                matched = True
        want = "; ".join("ret " + vecspec.show(r["ret"]) + "".join(" / *self " + vecspec.show(r["posts"][x]) for x in ref["mut_roots"])
                         for (r, ok) in shown) or "no contract outcome applies on this path"
        got = "ret " + vecspec.show(v) + "".join(" / *self " + vecspec.show(st.env[x]) for x in ref["mut_roots"])
        terms = tuple(_seq_terms(v)) + tuple(t for x in ref["mut_roots"] for t in _seq_terms(st.env[x]))
        unknown = _has_top(v) or any(_has_top(st.env[x]) for x in ref["mut_roots"])
        actual = (terms + ((("v", "top:unknown"),) if unknown else ())) or None
        c.ob("ENS", f"{name}: the Vec backend returns what the array contract prescribes (scalar definition)",
             f"got {got}  ≡  contract {want}", matched, st, actual=actual)


def _assumption_fact(st0, k, p):
    """Facts the reference added to the shared entry state are assumptions, already present there."""
    return (k, p) in st0.lin.facts


def _seq_terms(v):
    if isinstance(v, VSeq):
        return [v.t]
    if isinstance(v, VTup):
        return [t for x in v.items for t in _seq_terms(x)]
    if isinstance(v, VEnum):
        return [t for x in v.payload for t in _seq_terms(x)]
    if isinstance(v, VRec):
        return [t for x in v.f.values() for t in _seq_terms(x)]
    return []


def _has_top(v):
    if isinstance(v, VTop):
        return True
    if isinstance(v, VTup):
        return any(_has_top(x) for x in v.items)
    if isinstance(v, VEnum):
        return any(_has_top(x) for x in v.payload)
    if isinstance(v, VRec):
        return any(_has_top(x) for x in v.f.values())
    return False
