"""The oracle: declared result shapes (ENS), acceptance conditions (ACC) and rejection
conditions (REJ) of the public operations, written from the property statements and the crate
documentation — never from the implementation's output.  Checked on every symbolic outcome of
the analysed entry point."""
from poly import Poly, as_poly, show_poly
from values import *
from interp import Frame
import inv

FFN = "finite_function::arrow::FiniteFunction"
S_OH = "strict::open_hypergraph::arrow::OpenHypergraph"
S_H = "strict::hypergraph::object::Hypergraph"
ICN = "indexed_coproduct::arrow::IndexedCoproduct"


def deref_args(res):
    out = {}
    from shapecheck import param_name
    st0 = res["st0"]
    for i, (p, a) in enumerate(zip(res["fn"]["params"], res["args"])):
        v = a
        if isinstance(v, VMutRef):
            v = st0.env[v.place[0]]
        out[param_name(p, i)] = v
    return out


def is_fail(v):
    return isinstance(v, VEnum) and v.variant in ("None", "Err")


def payload(v):
    if isinstance(v, VEnum) and v.variant in ("Some", "Ok"):
        return v.payload[0]
    return v


def tab(ff):
    return ff.f["table"].t


def tgt(ff):
    return ff.f["target"].p


def w_of(oh):
    return oh.f["h"].f["w"].f["0"].t


def src_type(st, oh):
    return mk_gather(st, normalise(st, w_of(oh)), normalise(st, tab(oh.f["s"])))


def tgt_type(st, oh):
    return mk_gather(st, normalise(st, w_of(oh)), normalise(st, tab(oh.f["t"])))


class Ctx:
    def __init__(self, sc, res):
        self.sc = sc
        self.I = sc.I
        self.res = res
        self.fr = Frame(res["fn"], None)
        self.node = {"sp": res["fn"]["sp"]}
        self.count = 0

    def ob(self, kind, what, goal, ok, st, method="spec"):
        self.count += 1
        self.I.oblige(kind, self.fr, self.node, what, goal, ok, method if ok else "",
                      detail="" if ok else self.I.describe(st))

    def teq(self, st, what, a, b):
        ok = terms_equal(st, a, b)
        self.ob("ENS", what, f"{show_term(normalise(st, a))[:300]} ≡ {show_term(normalise(st, b))[:300]}", ok, st)

    def teq_any(self, st, what, a, options):
        ok = any(terms_equal(st, a, b) for b in options)
        self.ob("ENS", what, f"{show_term(normalise(st, a))[:300]} ≡ one of " +
                " | ".join(show_term(normalise(st, b))[:200] for b in options), ok, st)

    def eq(self, st, what, a, b):
        a, b = as_poly(a), as_poly(b)
        self.ob("ENS", what, f"{show_poly(a)} == {show_poly(b)}", st.eq(a, b), st)

    def acc(self, st, what, conds):
        """ACC: on a success outcome the documented acceptance condition is entailed."""
        for c in conds:
            if c[0] == "eq":
                self.ob("ACC", what, f"accepted ⇒ {show_poly(as_poly(c[1]))} == {show_poly(as_poly(c[2]))}",
                        st.eq(c[1], c[2]), st)
            elif c[0] == "bound":
                self.ob("ACC", what, f"accepted ⇒ ub({show_term(c[1])}) <= {show_poly(as_poly(c[2]))}",
                        prove_bound(st, c[1], c[2]), st)
            elif c[0] == "teq":
                self.ob("ACC", what, f"accepted ⇒ {show_term(c[1])[:200]} ≡ {show_term(c[2])[:200]}",
                        terms_equal(st, c[1], c[2]), st)

    def rej(self, st, what, conds):
        """REJ: a failure outcome is infeasible under the documented acceptance condition."""
        s = st.copy()
        feasible = True
        for c in conds:
            if c[0] == "eq":
                s.add_eq(as_poly(c[1]) - as_poly(c[2]))
            elif c[0] == "bound":
                s.add_bound(c[1], c[2])
                # every element (in particular the maximum) is below the bound
                s.add_ge(as_poly(c[2]) - Poly.atom(("max", c[1])) - 1)
            elif c[0] == "teq":
                na, nb = normalise(s, c[1]), normalise(s, c[2])
                if na != nb:
                    s.teq = s.teq + (((na, nb) if term_size(na) >= term_size(nb) else (nb, na)),)
                s.add_eq(t_len(c[1]) - t_len(c[2]))
        infeasible = s.infeasible()
        if not infeasible:
            for (a, b, _) in s.tne:
                if terms_equal(s, a, b):
                    infeasible = True
                    break
        txt = "; ".join(cond_txt(c) for c in conds)
        self.ob("REJ", what, f"rejects only when not({txt})", infeasible, st)


def cond_txt(c):
    if c[0] == "eq":
        return f"{show_poly(as_poly(c[1]))} == {show_poly(as_poly(c[2]))}"
    if c[0] == "bound":
        return f"ub({show_term(c[1])[:120]}) <= {show_poly(as_poly(c[2]))}"
    return f"{show_term(c[1])[:120]} ≡ {show_term(c[2])[:120]}"


def inv_conds(v):
    out = []
    for c in inv.conditions(v):
        if c[0] == "bound":
            out.append(("bound", c[1], c[2]))
        elif c[0] == "eq":
            out.append(("eq", c[1], c[2]))
    return out


SPECS = []


def spec(*suffixes):
    def deco(f):
        SPECS.append((suffixes, f))
        return f
    return deco


def run(sc, res):
    path = res["fn"]["path"]
    c = Ctx(sc, res)
    a = deref_args(res)
    names = []
    for suffixes, f in SPECS:
        if any(path.endswith(s) for s in suffixes):
            names.append(f.__name__)
            for (st, v, ctl) in res["outs"]:
                f(c, a, st, v)
    res["spec"] = names


# ------------------------------------------------------------------ finite functions

@spec(f"{FFN}::<K>::new")
def ff_new(c, a, st, v):
    want = VRec(inv.FF, {"table": a["table"], "target": a["target"]})
    if is_fail(v):
        c.rej(st, "FiniteFunction::new", inv_conds(want))
    else:
        c.acc(st, "FiniteFunction::new", inv_conds(want))
        r = payload(v)
        c.teq(st, "new: table kept", tab(r), a["table"].t)
        c.eq(st, "new: target kept", tgt(r), a["target"].p)


@spec(f"<{FFN}<K> as category::traits::Arrow>::compose", f"<&{FFN}<K> as std::ops::Shr<&{FFN}<K>>>::shr")
def ff_compose(c, a, st, v):
    f, g = list(a.values())[:2]
    cond = [("eq", tgt(f), t_len(tab(g)))]
    if is_fail(v):
        c.rej(st, "compose defined iff codomain = domain", cond)
    else:
        r = payload(v)
        c.acc(st, "compose defined iff codomain = domain", cond)
        c.teq(st, "compose is pointwise application (gather)", tab(r), ("gather", tab(g), tab(f)))
        c.eq(st, "compose: codomain of the right map", tgt(r), tgt(g))


@spec(f"<{FFN}<K> as category::traits::Coproduct>::coproduct", f"<&{FFN}<K> as std::ops::Add<&{FFN}<K>>>::add")
def ff_coproduct(c, a, st, v):
    f, g = list(a.values())[:2]
    cond = [("eq", tgt(f), tgt(g))]
    if is_fail(v):
        c.rej(st, "coproduct defined iff codomains agree", cond)
    else:
        r = payload(v)
        c.acc(st, "coproduct defined iff codomains agree", cond)
        c.teq(st, "coproduct = concatenation", tab(r), mk_concat([tab(f), tab(g)]))
        c.eq(st, "coproduct codomain", tgt(r), tgt(f))


@spec(f"<{FFN}<K> as category::traits::Monoidal>::tensor", f"<&{FFN}<K> as std::ops::BitOr<&{FFN}<K>>>::bitor")
def ff_tensor(c, a, st, v):
    f, g = list(a.values())[:2]
    c.teq(st, "tensor = left table followed by right table shifted by the left codomain", tab(v),
          mk_concat([tab(f), mk_shift(tgt(f), tab(g))]))
    c.eq(st, "tensor codomain = sum", tgt(v), tgt(f) + tgt(g))


@spec(f"<{FFN}<K> as category::traits::Coproduct>::inj0")
def ff_inj0(c, a, st, v):
    x, y = a["a"].p, a["b"].p
    c.teq(st, "inj0 = 0..a", tab(v), mk_arange(0, x))
    c.eq(st, "inj0 codomain a+b", tgt(v), x + y)


@spec(f"<{FFN}<K> as category::traits::Coproduct>::inj1")
def ff_inj1(c, a, st, v):
    x, y = a["a"].p, a["b"].p
    c.teq(st, "inj1 = a..a+b", tab(v), mk_arange(x, x + y))
    c.eq(st, "inj1 codomain a+b", tgt(v), x + y)


@spec(f"<{FFN}<K> as category::traits::SymmetricMonoidal>::twist")
def ff_twist(c, a, st, v):
    x, y = a["a"].p, a["b"].p
    c.teq(st, "twist(a,b) = [b..a+b, 0..b]", tab(v), mk_concat([mk_arange(y, x + y), mk_arange(0, y)]))
    c.eq(st, "twist codomain a+b", tgt(v), x + y)


@spec(f"<{FFN}<K> as category::traits::Arrow>::identity")
def ff_identity(c, a, st, v):
    x = a["a"].p
    c.teq(st, "identity = 0..a", tab(v), mk_arange(0, x))
    c.eq(st, "identity codomain a", tgt(v), x)


@spec(f"<{FFN}<K> as category::traits::Coproduct>::initial")
def ff_initial(c, a, st, v):
    c.teq(st, "initial: empty table", tab(v), EMPTY)
    c.eq(st, "initial: codomain a", tgt(v), a["a"].p)


@spec(f"{FFN}::<K>::terminal")
def ff_terminal(c, a, st, v):
    c.teq(st, "terminal: a zeroes", tab(v), ("fill", Poly.const(0), a["a"].p))
    c.eq(st, "terminal: codomain 1", tgt(v), 1)


@spec(f"{FFN}::<K>::constant")
def ff_constant(c, a, st, v):
    c.teq(st, "constant: a copies of x", tab(v), ("fill", a["x"].p, a["a"].p))
    c.eq(st, "constant: codomain x+1+b", tgt(v), a["x"].p + a["b"].p + 1)


@spec(f"{FFN}::<K>::inject0")
def ff_inject0(c, a, st, v):
    f = a["self"]
    c.teq(st, "inject0 keeps the table", tab(v), tab(f))
    c.eq(st, "inject0 codomain", tgt(v), tgt(f) + a["b"].p)


@spec(f"{FFN}::<K>::inject1")
def ff_inject1(c, a, st, v):
    f = a["self"]
    c.teq(st, "inject1 shifts the table by a", tab(v), mk_shift(a["a"].p, tab(f)))
    c.eq(st, "inject1 codomain", tgt(v), tgt(f) + a["a"].p)


@spec(f"{FFN}::<K>::to_initial")
def ff_to_initial(c, a, st, v):
    c.teq(st, "to_initial: empty", tab(v), EMPTY)
    c.eq(st, "to_initial: same codomain", tgt(v), tgt(a["self"]))


@spec(f"{FFN}::<K>::coequalizer")
def ff_coequalizer(c, a, st, v):
    f, g = a["self"], a["other"]
    cond = [("eq", t_len(tab(f)), t_len(tab(g))), ("eq", tgt(f), tgt(g))]
    if is_fail(v):
        c.rej(st, "coequalizer defined iff parallel", cond)
    else:
        r = payload(v)
        c.acc(st, "coequalizer defined iff parallel", cond)
        c.teq(st, "coequalizer = connected components of the pairs (f(i), g(i)) over the codomain",
              tab(r), ("cc", tab(f), tab(g), tgt(f)))
        c.eq(st, "coequalizer: codomain = number of components", tgt(r), Poly.atom(("ncomp", tab(f), tab(g), tgt(f))))


@spec(f"{FFN}::<K>::injections")
def ff_injections(c, a, st, v):
    s_, x = a["self"], a["a"]
    cond = [("eq", tgt(x), t_len(tab(s_)))]
    if is_fail(v):
        c.rej(st, "injections defined iff a lands in the segments", cond)
    else:
        r = payload(v)
        c.acc(st, "injections defined iff a lands in the segments", cond)
        c.teq(st, "injections = block-wise injections of the sizes along a", tab(r), mk_inj(st, tab(s_), tab(x)))
        c.eq(st, "injections: codomain = total size", tgt(r), t_sum(tab(s_)))


@spec("semifinite::types::compose_semifinite",
      "impl std::ops::Shr<&semifinite::types::SemifiniteFunction<K, T>> for &finite_function::arrow::FiniteFunction<K>>::shr")
def semi_compose(c, a, st, v):
    f, g = list(a.values())[:2]
    cond = [("eq", tgt(f), t_len(g.f["0"].t))]
    if is_fail(v):
        c.rej(st, "compose_semifinite defined iff codomain = length", cond)
    else:
        r = payload(v)
        c.acc(st, "compose_semifinite defined iff codomain = length", cond)
        c.teq(st, "re-indexing = gather", r.f["0"].t, ("gather", g.f["0"].t, tab(f)))


@spec("finite_function::arrow::coequalizer_universal")
def coeq_universal(c, a, st, v):
    q, f = a["q"], a["f"]
    if is_fail(v):
        return
    r = payload(v)
    c.acc(st, "universal map exists only for matching lengths", [("eq", t_len(tab(q)), t_len(f.t))])
    # the returned map composes with q back to f (established by recomposition on the Some path)
    c.teq(st, "q ; u == f on the Some path", ("gather", r.t, tab(q)), f.t)
    c.eq(st, "universal map has one value per class", t_len(r.t), tgt(q))


# ------------------------------------------------------------------ segmented arrays

def ic_sizes(v):
    return tab(v.f["sources"])


@spec(f"{ICN}::<K, F>::new")
def ic_new(c, a, st, v):
    want = VRec(inv.IC, {"sources": a["sources"], "values": a["values"]})
    conds = [x for x in inv_conds(want) if x[0] == "eq"]
    if is_fail(v):
        c.rej(st, "IndexedCoproduct::new", conds)
    else:
        c.acc(st, "IndexedCoproduct::new", conds)


@spec(f"{ICN}::<K, F>::from_semifinite")
def ic_from_semifinite(c, a, st, v):
    sizes = a["sources"].f["0"].t
    n = inv.values_len(a["values"])
    conds = [("bound", sizes, n + 1), ("eq", t_sum(sizes), n)]
    if is_fail(v):
        c.rej(st, "IndexedCoproduct::from_semifinite", conds)
    else:
        r = payload(v)
        c.acc(st, "IndexedCoproduct::from_semifinite", conds)
        c.teq(st, "from_semifinite keeps the sizes", ic_sizes(r), sizes)


@spec(f"{ICN}::<K, F>::validate")
def ic_validate(c, a, st, v):
    conds = [x for x in inv_conds(a["self"]) if x[0] == "eq"]
    if is_fail(v):
        c.rej(st, "IndexedCoproduct::validate", conds)
    else:
        c.acc(st, "IndexedCoproduct::validate", conds)


@spec(f"{ICN}::<K, F>::singleton")
def ic_singleton(c, a, st, v):
    c.eq(st, "singleton: one segment", t_len(ic_sizes(v)), 1)
    c.teq(st, "singleton: the segment is all of values", ic_sizes(v), ("fill", inv.values_len(a["values"]), Poly.const(1)))


@spec(f"{ICN}::<K, F>::elements")
def ic_elements(c, a, st, v):
    n = inv.values_len(a["values"])
    c.teq(st, "elements: one unit segment per value", ic_sizes(v), ("fill", Poly.const(1), n))


@spec(f"{ICN}::<K, {FFN}<K>>::tensor", f"{ICN}::<K, F>::coproduct")
def ic_tensor(c, a, st, v):
    x, y = a["self"], a["other"]
    if is_fail(v):
        return
    r = payload(v)
    c.teq(st, "segment sizes are concatenated", ic_sizes(r), mk_concat([ic_sizes(x), ic_sizes(y)]))
    c.eq(st, "number of segments adds", t_len(ic_sizes(r)), t_len(ic_sizes(x)) + t_len(ic_sizes(y)))


@spec(f"{ICN}::<K, F>::map_indexes")
def ic_map_indexes(c, a, st, v):
    x, m = a["self"], a["x"]
    cond = [("eq", tgt(m), t_len(ic_sizes(x)))]
    if is_fail(v):
        c.rej(st, "map_indexes defined iff x lands in the segments", cond)
    else:
        r = payload(v)
        c.acc(st, "map_indexes defined iff x lands in the segments", cond)
        c.teq(st, "map_indexes: sizes re-indexed along x", ic_sizes(r), ("gather", ic_sizes(x), tab(m)))


@spec(f"{ICN}::<K, {FFN}<K>>::map_values", f"{ICN}::<K, {FFN}<K>>::map_semifinite")
def ic_map_values(c, a, st, v):
    x = a["self"]
    if is_fail(v):
        return
    r = payload(v)
    c.teq(st, "map_values leaves the sizes unchanged", ic_sizes(r), ic_sizes(x))


@spec(f"{ICN}::<K, {FFN}<K>>::flatmap", f"{ICN}::<K, F>::flatmap_sources")
def ic_flatmap(c, a, st, v):
    x = a["self"]
    c.eq(st, "flatmap keeps the number of segments", t_len(ic_sizes(v)), t_len(ic_sizes(x)))


@spec(f"{ICN}::<K, {FFN}<K>>::initial")
def ic_initial(c, a, st, v):
    c.eq(st, "initial: no segments", t_len(ic_sizes(v)), 0)


# ------------------------------------------------------------------ hypergraphs

@spec("operations::Operations::<K, O, A>::new", "operations::Operations::<K, O, A>::validate")
def ops_new(c, a, st, v):
    if "self" in a:
        want = a["self"]
    else:
        want = VRec(inv.OPS, {"x": a["x"], "a": a["a"], "b": a["b"]})
    conds = [x for x in inv_conds(want) if "INV_OPS" in str(x) or True]
    nx = inv.values_len(want.f["x"])
    conds = [("eq", t_len(ic_sizes(want.f["a"])), nx), ("eq", t_len(ic_sizes(want.f["b"])), nx)]
    if is_fail(v):
        c.rej(st, "Operations::new", conds)
    else:
        c.acc(st, "Operations::new", conds)


def h_conds(h):
    nx = inv.values_len(h.f["x"])
    nw = inv.values_len(h.f["w"])
    return [("eq", t_len(ic_sizes(h.f["s"])), nx), ("eq", t_len(ic_sizes(h.f["t"])), nx),
            ("eq", tgt(h.f["s"].f["values"]), nw), ("eq", tgt(h.f["t"].f["values"]), nw)]


@spec(f"{S_H}::<K, O, A>::new", f"{S_H}::<K, O, A>::validate")
def h_new(c, a, st, v):
    h = a["self"] if "self" in a else VRec(inv.SH, {"s": a["s"], "t": a["t"], "w": a["w"], "x": a["x"]})
    if is_fail(v):
        c.rej(st, "Hypergraph::new", h_conds(h))
    else:
        c.acc(st, "Hypergraph::new", h_conds(h))


@spec(f"{S_OH}::<K, O, A>::new", f"{S_OH}::<K, O, A>::validate")
def oh_new(c, a, st, v):
    f = a["self"] if "self" in a else VRec(inv.SOH, {"s": a["s"], "t": a["t"], "h": a["h"]})
    nw = inv.values_len(f.f["h"].f["w"])
    conds = h_conds(f.f["h"]) + [("eq", tgt(f.f["s"]), nw), ("eq", tgt(f.f["t"]), nw)]
    if is_fail(v):
        c.rej(st, "OpenHypergraph::new", conds)
    else:
        r = payload(v)
        c.acc(st, "OpenHypergraph::new", conds)
        c.teq(st, "new keeps the source leg", tab(r.f["s"]), tab(f.f["s"]))
        c.teq(st, "new keeps the target leg", tab(r.f["t"]), tab(f.f["t"]))


@spec(f"{S_OH}::<K, O, A>::spider", f"<{S_OH}<K, O, A> as category::spider::Spider<K>>::spider")
def oh_spider(c, a, st, v):
    s_, t_, w = a["s"], a["t"], a["w"]
    nw = inv.values_len(w)
    conds = [("eq", tgt(s_), nw), ("eq", tgt(t_), nw)]
    if is_fail(v):
        c.rej(st, "spider accepts iff both legs land in the node list", conds)
    else:
        r = payload(v)
        c.acc(st, "spider accepts iff both legs land in the node list", conds)
        discrete(c, st, r, w.f["0"].t)
        c.teq(st, "spider: source leg as given", tab(r.f["s"]), tab(s_))
        c.teq(st, "spider: target leg as given", tab(r.f["t"]), tab(t_))


def discrete(c, st, r, w):
    h = r.f["h"]
    c.teq(st, "discrete: node labels as given", h.f["w"].f["0"].t, w)
    c.eq(st, "discrete: no hyperedges", inv.values_len(h.f["x"]), 0)
    c.eq(st, "discrete: no source incidence", t_len(tab(h.f["s"].f["values"])), 0)
    c.eq(st, "discrete: no target incidence", t_len(tab(h.f["t"].f["values"])), 0)


@spec("category::spider::Spider::half_spider")
def oh_half_spider(c, a, st, v):
    s_, w = a["s"], a["w"]
    nw = inv.values_len(w)
    conds = [("eq", tgt(s_), nw)]
    if is_fail(v):
        c.rej(st, "half_spider accepts iff the leg lands in the node list", conds)
    else:
        r = payload(v)
        c.acc(st, "half_spider accepts iff the leg lands in the node list", conds)
        c.teq(st, "half_spider: target leg is the identity on the nodes", tab(r.f["t"]), mk_arange(0, nw))
        c.teq(st, "half_spider: source leg as given", tab(r.f["s"]), tab(s_))


@spec(f"<{S_OH}<K, O, A> as category::spider::Spider<K>>::dagger")
def oh_dagger(c, a, st, v):
    f = a["self"]
    c.teq(st, "dagger: source leg = old target leg", tab(v.f["s"]), tab(f.f["t"]))
    c.teq(st, "dagger: target leg = old source leg", tab(v.f["t"]), tab(f.f["s"]))
    c.eq(st, "dagger: leg codomains", tgt(v.f["s"]), tgt(f.f["t"]))
    same_hypergraph(c, st, v.f["h"], f.f["h"], "dagger")


def same_hypergraph(c, st, h1, h2, what):
    for leg in ("s", "t"):
        c.teq(st, f"{what}: {leg} sizes untouched", ic_sizes(h1.f[leg]), ic_sizes(h2.f[leg]))
        c.teq(st, f"{what}: {leg} incidence untouched", tab(h1.f[leg].f["values"]), tab(h2.f[leg].f["values"]))
    c.teq(st, f"{what}: node labels untouched", h1.f["w"].f["0"].t, h2.f["w"].f["0"].t)
    c.teq(st, f"{what}: edge labels untouched", h1.f["x"].f["0"].t, h2.f["x"].f["0"].t)


@spec(f"{S_OH}::<K, O, A>::identity", f"<{S_OH}<K, O, A> as category::traits::Arrow>::identity")
def oh_identity(c, a, st, v):
    w = a["w"].f["0"].t
    c.teq(st, "identity: source type = w", src_type(st, v), w)
    c.teq(st, "identity: target type = w", tgt_type(st, v), w)
    discrete(c, st, v, w)


@spec(f"<{S_OH}<K, O, A> as category::traits::SymmetricMonoidal>::twist")
def oh_twist(c, a, st, v):
    x, y = a["a"].f["0"].t, a["b"].f["0"].t
    c.teq(st, "twist: source type = a ● b", src_type(st, v), mk_concat([x, y]))
    c.teq(st, "twist: target type = b ● a", tgt_type(st, v), mk_concat([y, x]))
    c.eq(st, "twist: discrete", inv.values_len(v.f["h"].f["x"]), 0)


@spec(f"{S_OH}::<K, O, A>::source", f"<{S_OH}<K, O, A> as category::traits::Arrow>::source")
def oh_source(c, a, st, v):
    f = a["self"]
    c.teq(st, "source type = labels of the source leg", v.f["0"].t, ("gather", w_of(f), tab(f.f["s"])))


@spec(f"{S_OH}::<K, O, A>::target", f"<{S_OH}<K, O, A> as category::traits::Arrow>::target")
def oh_target(c, a, st, v):
    f = a["self"]
    c.teq(st, "target type = labels of the target leg", v.f["0"].t, ("gather", w_of(f), tab(f.f["t"])))


@spec(f"<{S_OH}<K, O, A> as category::traits::Monoidal>::tensor", f"<&{S_OH}<K, O, A> as std::ops::BitOr<")
def oh_tensor(c, a, st, v):
    f, g = list(a.values())[:2]
    nf = inv.values_len(f.f["h"].f["w"])
    c.teq(st, "tensor: source leg = f.s then g.s shifted by |f.w|", tab(v.f["s"]),
          mk_concat([tab(f.f["s"]), mk_shift(nf, tab(g.f["s"]))]))
    c.teq(st, "tensor: target leg = f.t then g.t shifted by |f.w|", tab(v.f["t"]),
          mk_concat([tab(f.f["t"]), mk_shift(nf, tab(g.f["t"]))]))
    h_coproduct_spec(c, st, v.f["h"], f.f["h"], g.f["h"], "tensor")
    c.teq(st, "tensor: source type = concatenation", src_type(st, v), mk_concat([src_type(st, f), src_type(st, g)]))
    c.teq(st, "tensor: target type = concatenation", tgt_type(st, v), mk_concat([tgt_type(st, f), tgt_type(st, g)]))


def h_coproduct_spec(c, st, r, f, g, what):
    nf = inv.values_len(f.f["w"])
    for leg in ("s", "t"):
        c.teq(st, f"{what}: {leg} segment sizes juxtaposed", ic_sizes(r.f[leg]),
              mk_concat([ic_sizes(f.f[leg]), ic_sizes(g.f[leg])]))
        c.teq(st, f"{what}: {leg} incidence = f's then g's shifted by |f.w|", tab(r.f[leg].f["values"]),
              mk_concat([tab(f.f[leg].f["values"]), mk_shift(nf, tab(g.f[leg].f["values"]))]))
        c.eq(st, f"{what}: {leg} incidence codomain = |f.w|+|g.w|", tgt(r.f[leg].f["values"]),
             nf + inv.values_len(g.f["w"]))
    c.teq(st, f"{what}: node labels juxtaposed", r.f["w"].f["0"].t, mk_concat([f.f["w"].f["0"].t, g.f["w"].f["0"].t]))
    c.teq(st, f"{what}: edge labels juxtaposed", r.f["x"].f["0"].t, mk_concat([f.f["x"].f["0"].t, g.f["x"].f["0"].t]))


@spec(f"{S_H}::<K, O, A>::coproduct", f"<&{S_H}<K, O, A> as std::ops::Add<")
def h_coproduct(c, a, st, v):
    f, g = list(a.values())[:2]
    h_coproduct_spec(c, st, v, f, g, "coproduct")


@spec(f"{S_H}::<K, O, A>::discrete")
def h_discrete(c, a, st, v):
    w = a["w"].f["0"].t
    c.teq(st, "discrete: labels as given", v.f["w"].f["0"].t, w)
    c.eq(st, "discrete: no edges", inv.values_len(v.f["x"]), 0)
    c.eq(st, "discrete: incidence codomain = |w|", tgt(v.f["s"].f["values"]), t_len(w))


@spec(f"<{S_OH}<K, O, A> as category::traits::Arrow>::compose", f"<&{S_OH}<K, O, A> as std::ops::Shr<")
def oh_compose(c, a, st, v):
    f, g = list(a.values())[:2]
    cond = [("teq", mk_gather(st, w_of(f), tab(f.f["t"])), mk_gather(st, w_of(g), tab(g.f["s"])))]
    if is_fail(v):
        c.rej(st, "composition fails only on a type mismatch", cond)
        return
    r = payload(v)
    c.acc(st, "composition succeeds only when target(f) = source(g)", cond)
    c.teq(st, "compose: source type taken from the left", src_type(st, r), src_type(st, f))
    c.teq(st, "compose: target type taken from the right", tgt_type(st, r), tgt_type(st, g))
    c.eq(st, "compose: legs keep their arity (source)", t_len(tab(r.f["s"])), t_len(tab(f.f["s"])))
    c.eq(st, "compose: legs keep their arity (target)", t_len(tab(r.f["t"])), t_len(tab(g.f["t"])))
    h, fh, gh = r.f["h"], f.f["h"], g.f["h"]
    fx, gx = fh.f["x"].f["0"].t, gh.f["x"].f["0"].t
    # every hyperedge keeps its label and its arities; one common order for labels and both incidences
    orders = [(fh, gh), (gh, fh)]
    ok_order = None
    for (p, q) in orders:
        if terms_equal(st, h.f["x"].f["0"].t, mk_concat([p.f["x"].f["0"].t, q.f["x"].f["0"].t])):
            ok_order = (p, q)
            break
    c.ob("ENS", "compose: hyperedge labels kept (f's and g's, in one order)",
         f"{show_term(h.f['x'].f['0'].t)[:200]} ≡ f.x ++ g.x (either order)", ok_order is not None, st)
    if ok_order:
        p, q = ok_order
        for leg in ("s", "t"):
            c.teq(st, f"compose: {leg} arities kept in the same order as the labels", ic_sizes(h.f[leg]),
                  mk_concat([ic_sizes(p.f[leg]), ic_sizes(q.f[leg])]))
    # the glued node set: one class per connected component of the pre-quotient node space
    c.eq(st, "compose: incidence and legs land in the quotient node set", tgt(r.f["s"]), inv.values_len(h.f["w"]))


@spec(f"{S_OH}::<K, O, A>::tensor_operations")
def oh_tensor_operations(c, a, st, v):
    ops = a["operations"]
    c.teq(st, "tensor_operations: source type = all source types", src_type(st, v), ops.f["a"].f["values"].f["0"].t)
    c.teq(st, "tensor_operations: target type = all target types", tgt_type(st, v), ops.f["b"].f["values"].f["0"].t)
    c.teq(st, "tensor_operations: labels as given", v.f["h"].f["x"].f["0"].t, ops.f["x"].f["0"].t)
    c.teq(st, "tensor_operations: source arities as given", ic_sizes(v.f["h"].f["s"]), ic_sizes(ops.f["a"]))
    c.teq(st, "tensor_operations: target arities as given", ic_sizes(v.f["h"].f["t"]), ic_sizes(ops.f["b"]))


@spec(f"{S_OH}::<K, O, A>::singleton")
def oh_singleton(c, a, st, v):
    c.teq(st, "singleton: source type a", src_type(st, v), a["a"].f["0"].t)
    c.teq(st, "singleton: target type b", tgt_type(st, v), a["b"].f["0"].t)
    c.eq(st, "singleton: one hyperedge", inv.values_len(v.f["h"].f["x"]), 1)


@spec(f"{S_H}::<K, O, A>::coequalize_vertices")
def h_coequalize(c, a, st, v):
    h, q = a["self"], a["q"]
    if is_fail(v):
        return
    r = payload(v)
    for leg in ("s", "t"):
        c.teq(st, f"coequalize_vertices: {leg} incidence mapped through q", tab(r.f[leg].f["values"]),
              ("gather", tab(q), tab(h.f[leg].f["values"])))
        c.teq(st, f"coequalize_vertices: {leg} arities untouched", ic_sizes(r.f[leg]), ic_sizes(h.f[leg]))
    c.teq(st, "coequalize_vertices: edge labels untouched", r.f["x"].f["0"].t, h.f["x"].f["0"].t)
    c.eq(st, "coequalize_vertices: one label per class", inv.values_len(r.f["w"]), tgt(q))
    c.teq(st, "coequalize_vertices: every node keeps its label (q ; w' = w)",
          ("gather", r.f["w"].f["0"].t, tab(q)), h.f["w"].f["0"].t)


# ------------------------------------------------------------------ functors / optics

@spec("strict::functor::traits::define_map_arrow")
def define_map_arrow(c, a, st, v):
    F = a["functor"].key if isinstance(a["functor"], VUser) else "functor"
    f = a["f"]
    c.teq(st, "map_arrow: source type F(A)", src_type(st, v), ("Fmap", F, src_type(st, f)))
    c.teq(st, "map_arrow: target type F(B)", tgt_type(st, v), ("Fmap", F, tgt_type(st, f)))


@spec("strict::functor::identity::Identity as strict::functor::traits::Functor<K, O, A, O, A>>::map_arrow")
def identity_map_arrow(c, a, st, v):
    f = a["f"]
    c.teq(st, "identity functor: source type preserved", src_type(st, v), src_type(st, f))
    c.teq(st, "identity functor: target type preserved", tgt_type(st, v), tgt_type(st, f))


@spec("strict::functor::identity::Identity as strict::functor::traits::Functor<K, O, A, O, A>>::map_object")
def identity_map_object(c, a, st, v):
    x = a["a"].f["0"].t
    c.teq(st, "identity functor: one unit block per label", ic_sizes(v), ("fill", Poly.const(1), t_len(x)))
    c.teq(st, "identity functor: labels kept", v.f["values"].f["0"].t, x)


@spec("Functor<K, O1, A1, O2, A2>>::map_object")
def optic_map_object(c, a, st, v):
    x = a["a"].f["0"].t
    c.eq(st, "optic object map: one block per label", t_len(ic_sizes(v)), t_len(x))
    c.teq(st, "optic object map: block sizes = forward sizes + reverse sizes", ic_sizes(v),
          ("add", ("Fsizes", "self.fwd", x), ("Fsizes", "self.rev", x)))


@spec("strict::functor::optic::Optic::<F, R, K, O1, A1, O2, A2>::adapt")
def optic_adapt(c, a, st, v):
    x, y = a["a"].f["0"].t, a["b"].f["0"].t
    c.teq(st, "adapt: source type F(A) ● R(B)", src_type(st, v),
          mk_concat([("Fmap", "self.fwd", x), ("Fmap", "self.rev", y)]))
    c.teq(st, "adapt: target type F(B) ● R(A)", tgt_type(st, v),
          mk_concat([("Fmap", "self.fwd", y), ("Fmap", "self.rev", x)]))
    same_hypergraph(c, st, v.f["h"], v.f["h"], "adapt")


# ------------------------------------------------------------------ layering / evaluation

@spec("strict::layer::layer")
def layer_spec(c, a, st, v):
    f = a["f"]
    nx = inv.values_len(f.f["h"].f["x"])
    order, flags = v.items
    c.eq(st, "layer: one layer number per operation", t_len(tab(order)), nx)
    c.eq(st, "layer: layer numbers range over 0..|X|", tgt(order), nx)
    c.eq(st, "layer: one flag per operation", t_len(flags.t), nx)


@spec("strict::eval::eval")
def eval_spec(c, a, st, v):
    f = a["f"]
    if is_fail(v):
        return
    r = payload(v)
    c.eq(st, "eval: one output value per target position", t_len(r.t), t_len(tab(f.f["t"])))


# ------------------------------------------------------------------ array trait defaults (C07)

@spec("array::traits::Array::to_range")
def to_range_spec(c, a, st, v):
    n = t_len(a["self"].t)
    key = a["r"].key
    lo_atom = Poly.atom(("bound", key, "start"))
    hi_atom = Poly.atom(("bound", key, "end"))
    forms = {}
    for p in st.path:
        if p.startswith("start_bound=") or p.startswith("end_bound="):
            k, _, val = p.partition("=")
            forms[k] = val
    want_lo = {"Included": lo_atom, "Excluded": lo_atom + 1, "Unbounded": Poly.const(0)}[forms["start_bound"]]
    want_hi = {"Included": hi_atom + 1, "Excluded": hi_atom, "Unbounded": n}[forms["end_bound"]]
    c.eq(st, f"to_range: start for {forms['start_bound']} bound", v.lo.p, want_lo)
    c.eq(st, f"to_range: end (exclusive) for {forms['end_bound']} bound", v.hi.p, want_hi)


@spec("array::traits::NaturalArray::sum")
def sum_spec(c, a, st, v):
    # sum(x) is the last element of the cumulative sum (0 for the empty array)
    x = a["self"].t
    ok = st.eq(v.p, t_sum(x)) or (st.eq(t_len(x), 0) and st.eq(v.p, 0))
    c.ob("ENS", "sum = last entry of the cumulative sum", f"{show_poly(v.p)} == sum(self)", ok, st)


@spec("array::traits::NaturalArray::segmented_sum")
def segsum_spec(c, a, st, v):
    c.eq(st, "segmented_sum: one entry per segment", t_len(v.t), t_len(a["self"].t))


@spec("array::traits::NaturalArray::segmented_arange")
def segarange_spec(c, a, st, v):
    c.eq(st, "segmented_arange: total length = sum of sizes", t_len(v.t), t_sum(a["self"].t))


@spec("array::traits::OrdArray::sort_by")
def sort_by_spec(c, a, st, v):
    c.teq(st, "sort_by = gather by the argsort of the key", v.t, ("gather", a["self"].t, ("argsort", a["key"].t)))


@spec("array::traits::Array::is_empty")
def is_empty_spec(c, a, st, v):
    ok = isinstance(v, VBool) and v.f == ("cmp", "eq", t_len(a["self"].t))
    c.ob("ENS", "is_empty ⇔ len == 0", show_formula(v.f) if isinstance(v, VBool) else repr(v), ok, st)
