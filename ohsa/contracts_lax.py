"""Documented contracts of the lax user traits (lax::functor::Functor, lax::optic::Optic, HasVar).

A_L   lax Functor::map_object yields a list of labels determined by the functor and the label;
      map_operation / fwd_operation / rev_operation / map_arrow return a *well-formed* lax diagram
      (doc: consistency with map_object is "not checked, but may panic")."""
from poly import Poly
from values import *
import inv
import contracts
import lax_model

LAX_FUNCTOR = "lax::functor::traits::Functor"
LAX_OPTIC = "lax::optic::Optic"


def key_of(v):
    if isinstance(v, VUser):
        return v.key
    if isinstance(v, VSeq):
        return ("seq", v.t)
    if isinstance(v, VNat):
        return ("nat", v.p)
    if isinstance(v, VRec):
        return v.ty.split("::")[-1]
    return repr(v)[:60]


def fresh_lax_oh(I, st, name):
    def lf(n, label=False, hyper=False):
        t = leaf((name, n))
        if label:
            lax_model.LABEL_LEAVES.add(t)
        if hyper:
            lax_model.LIST_ELEM[t] = "hyperedge"
        return VSeq(t)
    h = VRec(inv.LH, {"nodes": lf("nodes", label=True), "edges": lf("edges", label=True),
                      "adjacency": lf("adjacency", hyper=True),
                      "quotient": VTup([lf("quotient.0"), lf("quotient.1")])})
    v = VRec(inv.LOH, {"sources": lf("sources"), "targets": lf("targets"), "hypergraph": h})
    inv.assume_inv(I, st, v)
    return v


def deref(I, st, v):
    while isinstance(v, VMutRef):
        v = I.read_place(st, v.place)
    return v


def h_map_object(I, st, fr, e, c, a):
    contracts.use(I, "A_L")
    F = contracts.fkey(deref(I, st, a[0]))
    o = deref(I, st, a[1])
    t = ("LFobj", c["name"], F, key_of(o))
    lax_model.LABEL_LEAVES.add(t)
    return [(st, VSeq(t), None)]


def h_map_operation(I, st, fr, e, c, a):
    contracts.use(I, "A_L")
    F = contracts.fkey(deref(I, st, a[0]))
    name = ("user", "lax_map_operation", c["name"], F) + tuple(key_of(deref(I, st, x)) for x in a[1:])
    return [(st, fresh_lax_oh(I, st, name), None)]


def h_residual(I, st, fr, e, c, a):
    contracts.use(I, "A_L")
    F = contracts.fkey(deref(I, st, a[0]))
    t = ("LFobj", "residual", F, key_of(deref(I, st, a[1])))
    lax_model.LABEL_LEAVES.add(t)
    return [(st, VSeq(t), None)]


def h_var(I, st, fr, e, c, a):
    return [(st, VUser("HasVar::var"), None)]


def lookup(I, callee, vals):
    tr = callee.get("trait")
    n = callee["name"]
    if tr == LAX_FUNCTOR:
        return {"map_object": h_map_object, "map_operation": h_map_operation, "map_arrow": h_map_operation}.get(n)
    if tr == LAX_OPTIC:
        return {"fwd_object": h_map_object, "rev_object": h_map_object, "fwd_operation": h_map_operation,
                "rev_operation": h_map_operation, "residual": h_residual}.get(n)
    if tr == "lax::var::var::HasVar" and n == "var":
        return h_var
    if tr and tr.startswith("lax::var::operators::Has"):
        return h_signature_op
    return None


def h_signature_op(I, st, fr, e, c, a):
    """HasAdd::add(lhs_type, rhs_type) -> (result label, operation label): user signature."""
    key = (c["name"],) + tuple(key_of(deref(I, st, x)) for x in a)
    return [(st, VTup([VUser(("oplabel-type",) + key), VUser(("oplabel",) + key)]), None)]
