"""Runs every analysis on one exported fact set and returns a JSON-able result."""
import multiprocessing as mp
import os
import time

_FACTS = {}


def _load(path):
    from ir import Facts
    if path not in _FACTS:
        _FACTS[path] = Facts(path)
    return _FACTS[path]


def _entry_list(facts):
    from shapecheck import Shapecheck, is_entry
    sc = Shapecheck(facts)
    out = []
    for p in sorted(facts.fns):
        fn = facts.fns[p]
        if not is_entry(fn):
            continue
        for (nm, tsub) in sc.instantiations(fn):
            out.append((p, nm))
    return out


def _work(arg):
    fpath, items, tier = arg
    import rules_terms
    from shapecheck import Shapecheck
    facts = _load(fpath)
    sc = Shapecheck(facts)
    sc.entry_time_limit = 300 if tier == "thorough" else 150      # the slowest entry takes about 16 s on an idle machine
    res = []
    for (p, nm) in items:
        fn = facts.fns[p]
        tsub = dict(sc.instantiations(fn)).get(nm, {})
        t0 = time.time()
        n_before = len(sc.I.obligations)
        sc.run_entry(fn, nm, tsub)
        key = p + (("[" + nm + "]") if nm else "")
        if key in sc.errors:
            res.append({"entry": key, "fn": p, "error": sc.errors[key], "time": round(time.time() - t0, 3)})
            continue
        r = sc.results[key]
        kinds = {}
        from values import VEnum
        for (s, v, c) in r["outs"]:
            t = v.variant if isinstance(v, VEnum) else type(v).__name__
            kinds[t] = kinds.get(t, 0) + 1
        res.append({"entry": key, "fn": p, "outcomes": kinds, "time": round(time.time() - t0, 3),
                    "obligations": [o.to_json() for o in r["obligations"]],
                    "assumed_at_entry": sc.entry_assumed.get(key, []),
                    "unmodelled": sorted(sc.I.entry_unmodelled.get(key, ())),
                    "spec": r.get("spec", [])})
        # free memory
        del sc.results[key]
    return {"entries": res, "unmodelled": {k: v[:3] for k, v in sc.I.unmodelled.items()},
            "uninterpreted": {k: v[:3] for k, v in sc.I.uninterpreted.items()},
            "assumptions": sc.I.assumptions, "lemmas": sc.I.lemma_uses, "term_rules": dict(rules_terms.USES),
            "loops": sc.I.loop_info, "stats": sc.I.stats}


def dependency_frontier(facts, entry_fns):
    impls = {}
    for p, f in facts.fns.items():
        if f.get("impl_trait"):
            impls.setdefault(f["impl_trait"] + "::" + f["name"], []).append(p)
    # only traits of this crate: a call of a std trait method (`x / d` on usize) is std's impl, whatever single impl the
    # crate itself happens to have for that trait
    uniq = {k: v[0] for k, v in impls.items()
            if len(v) == 1 and not k.startswith(("std::", "core::", "alloc::", "num_traits::"))}

    def callees(p):
        out = set()
        for c in facts.fns[p].get("mir_calls", []):
            d = c["def"]
            if d in facts.fns:
                out.add(d)
            elif d in uniq:
                out.add(uniq[d])
        return out
    res = {}
    for p in entry_fns:
        dep, seen, todo = set(), {p}, [p]
        while todo:
            q = todo.pop()
            for r in callees(q):
                if r in seen:
                    continue
                seen.add(r)
                if r in entry_fns:
                    dep.add(r)
                else:
                    todo.append(r)
        res[p] = sorted(dep)
    return res


def run(facts_dir, tier="quick"):
    t0 = time.time()
    fpath = os.path.join(facts_dir, "open_hypergraphs.default.json")
    facts = _load(fpath)
    entries = _entry_list(facts)
    ncpu = min(16, os.cpu_count() or 4)
    # round-robin distribution keeps expensive neighbours apart
    chunks = [[] for _ in range(ncpu)]
    for i, it in enumerate(entries):
        chunks[i % ncpu].append(it)
    with mp.Pool(ncpu) as pool:
        parts = pool.map(_work, [(fpath, c, tier) for c in chunks if c])
    out = {"entries": [], "unmodelled": {}, "uninterpreted": {}, "assumptions": {}, "lemmas": {}, "term_rules": {}, "loops": [],
           "stats": {}}
    for p in parts:
        out["entries"].extend(p["entries"])
        for k, v in p["unmodelled"].items():
            out["unmodelled"].setdefault(k, []).extend(v)
        for k, v in p.get("uninterpreted", {}).items():
            out["uninterpreted"].setdefault(k, []).extend(v)
        for name in ("assumptions", "lemmas", "term_rules", "stats"):
            for k, v in p[name].items():
                out[name][k] = out[name].get(k, 0) + v
        out["loops"].extend(p["loops"])
    out["entries"].sort(key=lambda e: e["entry"])
    # premises: the public operations each entry point calls directly (through crate-private helpers, which are
    # analysed inline); trait methods are resolved when the crate has exactly one implementation (the array traits)
    deps = dependency_frontier(facts, {e["fn"] for e in out["entries"]})
    for e in out["entries"]:
        e["deps"] = deps.get(e["fn"], [])
    # inventory (floors, fail-closed)
    import inventory
    out["inventory"] = inventory.collect(facts)
    # structural rules (E2)
    import e2
    serde_path = os.path.join(facts_dir, "open_hypergraphs.serde.json")
    out["rules"] = e2.run_all(facts, _load(serde_path) if os.path.exists(serde_path) else None, tier)
    out["shapecheck_s"] = round(time.time() - t0, 2)
    out["all_fns"] = sorted(facts.fns)
    out["facts"] = {"crate": facts.crate, "n_body_owners": facts.n_body_owners, "n_closures": facts.n_closures,
                    "n_fns": len(facts.fns), "unsupported": facts.unsupported}
    return out
