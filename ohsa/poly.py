"""Polynomials over natural-number atoms and an in-house decision procedure for linear
arithmetic over them (Gaussian elimination of equalities + exact simplex feasibility).

All atoms range over the naturals.  Non-linear monomials are treated as opaque atoms
(sound: they also range over the naturals).  The procedure is sound and incomplete for
integers (it decides the rational relaxation).  No external solver is used.
"""
from fractions import Fraction


_AKEY = {}


def _akey(a):
    k = _AKEY.get(a)
    if k is None:
        k = repr(a)
        _AKEY[a] = k
    return k


class Poly:
    """Immutable polynomial: mapping monomial (sorted tuple of atoms) -> Fraction."""
    __slots__ = ("t", "_h")

    def __init__(self, terms=None):
        d = {}
        if terms:
            for m, c in terms.items():
                if c != 0:
                    d[m] = Fraction(c)
        self.t = d
        self._h = None

    # -- constructors
    @staticmethod
    def const(c):
        return Poly({(): c})

    @staticmethod
    def atom(a):
        return Poly({(a,): 1})

    # -- basics
    def __hash__(self):
        if self._h is None:
            self._h = hash(frozenset(self.t.items()))
        return self._h

    def __eq__(self, o):
        return isinstance(o, Poly) and self.t == o.t

    def __add__(self, o):
        o = as_poly(o)
        d = dict(self.t)
        for m, c in o.t.items():
            d[m] = d.get(m, 0) + c
        return Poly(d)

    __radd__ = __add__

    def __neg__(self):
        return Poly({m: -c for m, c in self.t.items()})

    def __sub__(self, o):
        return self + (-as_poly(o))

    def __rsub__(self, o):
        return as_poly(o) - self

    def __mul__(self, o):
        o = as_poly(o)
        d = {}
        for m1, c1 in self.t.items():
            for m2, c2 in o.t.items():
                m = tuple(sorted(m1 + m2, key=_akey))
                d[m] = d.get(m, 0) + c1 * c2
        return Poly(d)

    __rmul__ = __mul__

    def is_const(self):
        return all(m == () for m in self.t)

    def const_value(self):
        return self.t.get((), Fraction(0))

    def monomials(self):
        return [m for m in self.t if m != ()]

    def atoms(self):
        s = set()
        for m in self.t:
            for a in m:
                s.add(a)
        return s

    def subst(self, mapping):
        """Substitute atoms by polynomials (mapping: atom -> Poly)."""
        if not mapping:
            return self
        if not any(a in mapping for a in self.atoms()):
            return self
        res = Poly()
        for m, c in self.t.items():
            p = Poly.const(c)
            for a in m:
                p = p * (mapping[a] if a in mapping else Poly.atom(a))
            res = res + p
        return res

    def __repr__(self):
        return show_poly(self)


def as_poly(x):
    if isinstance(x, Poly):
        return x
    return Poly.const(x)


def show_atom(a):
    if isinstance(a, str):
        return a
    if isinstance(a, tuple):
        return str(a[0]) + "(" + ", ".join(show_atom(x) for x in a[1:]) + ")"
    return str(a)


def show_poly(p):
    if not p.t:
        return "0"
    parts = []
    for m in sorted(p.t, key=lambda m: (len(m), [_akey(a) for a in m])):
        c = p.t[m]
        name = "*".join(show_atom(a) for a in m)
        if m == ():
            parts.append(str(c))
        elif c == 1:
            parts.append(name)
        elif c == -1:
            parts.append("-" + name)
        else:
            parts.append(f"{c}*{name}")
    s = " + ".join(parts)
    return s.replace("+ -", "- ")


# ---------------------------------------------------------------------------------------------
# Exact simplex (phase 1 only): feasibility of { A x = b, x >= 0 }.

def _feasible(rows, nvars):
    """rows: list of (coeffs: dict var->Fraction, rhs Fraction) meaning sum = rhs, vars >= 0.
    Fraction-free sparse phase-1 simplex with Bland's rule (exact integer arithmetic)."""
    from math import gcd
    m = len(rows)
    if m == 0:
        return True
    T = []
    B = []
    basis = []
    for i, (co, rhs) in enumerate(rows):
        den = 1
        for c in co.values():
            den = den * c.denominator // gcd(den, c.denominator)
        rhs = Fraction(rhs)
        den = den * rhs.denominator // gcd(den, rhs.denominator)
        r = {}
        for v, c in co.items():
            if c != 0:
                r[v] = int(c * den)
        b = int(rhs * den)
        if b < 0:
            r = {v: -c for v, c in r.items()}
            b = -b
        r[nvars + i] = 1
        T.append(r)
        B.append(b)
        basis.append(nvars + i)
    obj = {}
    W = 0
    for i in range(m):
        W += B[i]
        for v, c in T[i].items():
            if v < nvars:
                obj[v] = obj.get(v, 0) - c
    it = 0
    while True:
        it += 1
        if it > 4000:
            return True   # give up: treat as feasible (sound: nothing gets proved)
        e = -1
        for v in sorted(obj):
            if obj[v] < 0:
                e = v
                break
        if e < 0:
            break
        l = -1
        for i in range(m):
            a = T[i].get(e, 0)
            if a > 0:
                if l < 0:
                    l = i
                else:
                    # B[i]/a < B[l]/T[l][e] ?
                    lhs = B[i] * T[l][e]
                    rhs_ = B[l] * a
                    if lhs < rhs_ or (lhs == rhs_ and basis[i] < basis[l]):
                        l = i
        if l < 0:
            return True
        rl = T[l]
        p = rl[e]
        bl = B[l]
        for i in range(m):
            if i == l:
                continue
            ri = T[i]
            a = ri.get(e, 0)
            if a == 0:
                continue
            nr = {}
            for v, c in ri.items():
                nr[v] = c * p
            for v, c in rl.items():
                x = nr.get(v, 0) - a * c
                if x:
                    nr[v] = x
                else:
                    nr.pop(v, None)
            nb = B[i] * p - a * bl
            g = nb
            for c in nr.values():
                g = gcd(g, c)
                if g == 1:
                    break
            if g > 1:
                nr = {v: c // g for v, c in nr.items()}
                nb //= g
            T[i] = nr
            B[i] = nb
        ce = obj[e]
        no = {}
        for v, c in obj.items():
            no[v] = c * p
        for v, c in rl.items():
            x = no.get(v, 0) - ce * c
            if x:
                no[v] = x
            else:
                no.pop(v, None)
        W = W * p + ce * bl
        g = W
        for c in no.values():
            g = gcd(g, c)
            if g == 1:
                break
        if g > 1:
            no = {v: c // g for v, c in no.items()}
            W //= g
        obj = no
        basis[l] = e
    return W == 0


class Lin:
    """A conjunction of linear facts: kind in {'ge','eq','ne'} with polynomial p (p kind 0)."""

    def __init__(self, facts=None, seen=None):
        self.facts = list(facts) if facts else []
        self.seen = set(seen) if seen is not None else set(self.facts)

    def copy(self):
        return Lin(self.facts, self.seen)

    def add(self, kind, p):
        f = (kind, p)
        if f in self.seen:
            return False
        if kind == "ge" and (not p.t or all(c >= 0 for c in p.t.values())):
            return False    # trivially true over the naturals
        if kind == "eq" and not p.t:
            return False
        self.seen.add(f)
        self.facts.append(f)
        return True


def _solve_eqs(eqs):
    """Gaussian elimination on equalities; returns (subst: monomial->Poly, inconsistent?)."""
    subst = {}
    pending = list(eqs)
    changed = True
    out = []
    while pending:
        p = pending.pop()
        p = _apply(p, subst)
        if not p.t:
            continue
        if p.is_const():
            return subst, True
        # choose a pivot monomial: prefer coefficient +-1, linear atom, latest in order
        cands = [m for m in p.t if m != ()]
        cands.sort(key=lambda m: (0 if abs(p.t[m]) == 1 else 1, len(m), [_akey(a) for a in m]))
        m = cands[0]
        c = p.t[m]
        rest = Poly({k: -v / c for k, v in p.t.items() if k != m})
        # m := rest
        for k in list(subst):
            subst[k] = _apply_one(subst[k], m, rest)
        subst[m] = rest
    return subst, False


def _apply_one(p, m, rest):
    if m not in p.t:
        return p
    c = p.t[m]
    d = dict(p.t)
    del d[m]
    return Poly(d) + rest * Poly.const(c)


def _apply(p, subst):
    """Apply a monomial substitution (monomials are treated as LP variables)."""
    if not subst:
        return p
    res = None
    for m in list(p.t):
        if m in subst:
            if res is None:
                res = p
            res = _apply_one(res, m, subst[m])
    return p if res is None else res


def _lp_infeasible(ges, eqsubst):
    """ges: polys p with p >= 0 (after equality substitution). All monomials >= 0."""
    varix = {}
    rows = []
    for p in ges:
        p = _apply(p, eqsubst)
        if p.is_const():
            if p.const_value() < 0:
                return True
            continue
        for m in p.t:
            if m != () and m not in varix:
                varix[m] = len(varix)
        rows.append(p)
    # substituted-away monomials must still be >= 0
    for m, q in eqsubst.items():
        if q.is_const():
            if q.const_value() < 0:
                return True
            continue
        for k in q.t:
            if k != () and k not in varix:
                varix[k] = len(varix)
        rows.append(q)
    if not rows:
        return False
    n = len(varix)
    lprows = []
    # each row: sum c_m x_m + c0 >= 0  ->  sum c_m x_m - s = -c0, s >= 0
    for i, p in enumerate(rows):
        co = {}
        for m, c in p.t.items():
            if m != ():
                co[varix[m]] = c
        co[n + i] = Fraction(-1)
        lprows.append((co, -p.const_value()))
    return not _feasible(lprows, n + len(rows))


def _relevant(facts, goal_atoms):
    """Cone of influence: keep facts sharing atoms (transitively) with the goal."""
    atoms = set(goal_atoms)
    remaining = list(facts)
    kept = []
    changed = True
    while changed:
        changed = False
        nxt = []
        for f in remaining:
            a = f[1].atoms()
            if not a or (a & atoms):
                kept.append(f)
                if not a <= atoms:
                    atoms |= a
                    changed = True
            else:
                nxt.append(f)
        remaining = nxt
    return kept


def infeasible_rel(lin, fact):
    """Is the conjunction unsatisfiable, looking only at the cone of influence of `fact`?
    (Used when `fact` has just been added to a conjunction known to be satisfiable.)"""
    facts = _relevant(lin.facts, fact[1].atoms())
    return infeasible(Lin(facts))


def _propagate_constants(facts):
    """Atoms fixed to a constant by an equality (x == c) are substituted inside the non-linear monomials of the other
    facts (monomials are opaque LP variables otherwise: a*b with b == 0 would stay unknown)."""
    if not any(len(m) > 1 for k, p in facts for m in p.t):
        return facts
    fixed = {}
    for k, p in facts:
        if k == "eq":
            ms = [m for m in p.t if m != ()]
            if len(ms) == 1 and len(ms[0]) == 1:
                fixed[ms[0][0]] = Poly.const(-p.t.get((), 0) / p.t[ms[0]])
    if not fixed:
        return facts
    out = []
    for k, p in facts:
        if any(len(m) > 1 and any(a in fixed for a in m) for m in p.t):
            d = Poly()
            for m, c in p.t.items():
                if len(m) > 1 and any(a in fixed for a in m):
                    q = Poly.const(c)
                    for a in m:
                        q = q * (fixed[a] if a in fixed else Poly.atom(a))
                    d = d + q
                else:
                    d = d + Poly({m: c})
            p = d
        out.append((k, p))
    return out


def infeasible(lin, extra=()):
    """Is the conjunction of facts (plus extra) unsatisfiable over the naturals (relaxed)?"""
    facts = list(lin.facts) + list(extra)
    facts = _propagate_constants(facts)
    eqs = [p for k, p in facts if k == "eq"]
    subst, bad = _solve_eqs(eqs)
    if bad:
        return True
    ges = [p for k, p in facts if k == "ge"]
    if _lp_infeasible(ges, subst):
        return True
    # disequalities: p != 0 is contradicted when p == 0 is entailed
    for k, p in facts:
        if k == "ne":
            q = _apply(p, subst)
            if not q.t:
                return True
            if q.is_const():
                continue
            # entailed p == 0 ?  (p >= 1 infeasible and p <= -1 infeasible)
            if _lp_infeasible(ges + [q - 1], subst) and _lp_infeasible(ges + [-q - 1], subst):
                return True
    return False


def entails(lin, kind, p, stats=None):
    """Does the conjunction `lin` entail `p kind 0`?"""
    p = as_poly(p)
    facts = _relevant(lin.facts, p.atoms())
    sub = Lin(facts)
    if kind == "ge":
        if p.is_const():
            if p.const_value() >= 0:
                return True
        elif all(c >= 0 for c in p.t.values()):
            return True
        return infeasible(sub, [("ge", -p - 1)])
    if kind == "eq":
        if not p.t:
            return True
        return infeasible(sub, [("ge", -p - 1)]) and infeasible(sub, [("ge", p - 1)])
    if kind == "ne":
        return infeasible(sub, [("eq", p)])
    raise ValueError(kind)


if __name__ == "__main__":
    a, b, c = Poly.atom("a"), Poly.atom("b"), Poly.atom("c")
    L = Lin()
    L.add("eq", a - b - 1)          # a = b + 1
    L.add("ge", c - a)              # c >= a
    assert entails(L, "ge", c - b - 1)
    assert not entails(L, "ge", b - c)
    assert entails(L, "ne", c - b)
    L2 = Lin([("ne", a - b), ("eq", a - c), ("eq", c - b)])
    assert infeasible(L2)
    L3 = Lin([("ge", a - 1)])
    assert entails(L3, "ge", a * b - b) is False  # non-linear: not provable (monomials opaque)
    print("poly ok")
