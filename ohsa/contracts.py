"""Documented contracts of user-supplied code (assumptions, listed in evidence).

A_F1  strict Functor::map_object acts element-wise on the label array: one block of labels per
      input label (len(sizes) = len(a)), and re-indexing commutes with it (rule FNAT).
A_F2  Functor::map_operations(ops) returns a well-formed diagram of type
      F(ops.a.values) -> F(ops.b.values) (lax: "must be consistent with map_object").
A_F3  Functor::map_arrow(f) returns a well-formed diagram of type F(source f) -> F(target f).
A_R   the optic's residual closure returns a well-formed segmented array with one segment per operation.
A_E   eval's `apply` returns a well-formed segmented array with one segment per operation and
      as many values as the operations have target positions.
A_X   ExactSizeIterator::len is exact.
"""
from poly import Poly
from values import *
import inv

ASSUMPTIONS = {
    "A_F1": "map_object acts element-wise (one block per label; commutes with re-indexing)",
    "A_F2": "map_operations(ops) : F(ops.a.values) -> F(ops.b.values), well-formed",
    "A_F3": "map_arrow(f) : F(source f) -> F(target f), well-formed",
    "A_R": "residual closure: well-formed, one segment per operation",
    "A_E": "apply: well-formed, one segment per operation, one value per target position",
    "A_X": "ExactSizeIterator::len is exact",
    "A_B": "the closure passed to build() leaves the shared builder state well-formed and returns variables of that builder",
    "A_L": "lax Functor/Optic user methods return label lists determined by their arguments and well-formed lax diagrams",
    "A_OF": "the optic (map_object, map_operations) satisfies the functor contract A_F1/A_F2 when it is applied "
            "to a whole diagram through define_map_arrow (functoriality of the optic is not decided)",
    "A_DYN": "DynFunctor (a lax functor wrapped for the strict machinery) satisfies the strict functor contract, "
             "given the lax functor's documented consistency of map_operation with map_object",
    "A_O": "optic generators: fwd : F(A) -> F(B)●M and rev : M●R(B) -> R(A), as stated by the optic's two debug_assert_eq!",
    "A_B": "the closure passed to build() leaves the shared builder state well-formed and returns variables of that builder",
    "A_L": "lax Functor::map_object/map_operation are consistent (doc: not checked, may panic)",
}

STRICT_FUNCTOR = "strict::functor::traits::Functor"
LAX_FUNCTOR = "lax::functor::traits::Functor"
LAX_OPTIC = "lax::optic::Optic"


def use(I, name):
    I.assumptions[name] = I.assumptions.get(name, 0) + 1


def fkey(v):
    if isinstance(v, VUser):
        return v.key
    if isinstance(v, VRec):
        return v.ty.split("::")[-1]
    return repr(v)


def semi(term):
    return VRec(inv.SEMI, {"0": VSeq(term)})


def ff(table, target):
    return VRec(inv.FF, {"table": VSeq(table), "target": VNat(target)})


def map_object_value(I, st, F, a_term):
    sizes = ("Fsizes", F, a_term)
    vals = ("Fmap", F, a_term)
    v = VRec(inv.IC, {"sources": ff(sizes, t_sum(sizes) + 1), "values": semi(vals)})
    # INV_FF(sources): each size <= sum
    st.add_bound(sizes, t_sum(sizes) + 1)
    return v


def h_map_object(I, st, fr, e, c, a):
    use(I, "A_F1")
    F = fkey(a[0])
    arg = a[1]
    while isinstance(arg, VMutRef):
        arg = I.read_place(st, arg.place)
    t = arg.f["0"].t
    return [(st, map_object_value(I, st, F, normalise(st, t)), None)]


def fresh_strict_oh(I, st, name):
    """A fresh well-formed strict open hypergraph with opaque leaves."""
    def ic(n):
        sizes = leaf((name, n + ".sizes"))
        vals = leaf((name, n + ".values"))
        return VRec(inv.IC, {"sources": ff(sizes, t_sum(sizes) + 1),
                             "values": ff(vals, Poly.atom((name, "nw")))})
    w = leaf((name, "w"))
    x = leaf((name, "x"))
    h = VRec(inv.SH, {"s": ic("s"), "t": ic("t"), "w": semi(w), "x": semi(x)})
    v = VRec(inv.SOH, {"s": ff(leaf((name, "s")), Poly.atom((name, "nw"))),
                       "t": ff(leaf((name, "t")), Poly.atom((name, "nw"))), "h": h})
    st.add_eq(Poly.atom((name, "nw")) - t_len(w))
    inv.assume_inv(I, st, v)
    return v


def h_map_operations(I, st, fr, e, c, a):
    use(I, "A_F2")
    F = fkey(a[0])
    ops = a[1]
    a_vals = normalise(st, ops.f["a"].f["values"].f["0"].t)
    b_vals = normalise(st, ops.f["b"].f["values"].f["0"].t)
    name = ("user", "map_operations", F, a_vals, b_vals, ops.f["x"].f["0"].t)
    v = fresh_strict_oh(I, st, name)
    w = v.f["h"].f["w"].f["0"].t
    src = ("gather", w, v.f["s"].f["table"].t)
    tgt = ("gather", w, v.f["t"].f["table"].t)
    fa, fb = ("Fmap", F, a_vals), ("Fmap", F, b_vals)
    role = optic_role(fr, F)
    if role != "target-only":
        st.teq = st.teq + ((src, normalise(st, fa)),)
        st.add_eq(t_len(src) - t_len(fa))
    if role == "target-only":
        # rev : M●R(B) -> R(A)
        st.teq = st.teq + ((tgt, normalise(st, fa)),)
        st.add_eq(t_len(tgt) - t_len(fa))
    elif role != "source-only":
        st.teq = st.teq + ((tgt, normalise(st, fb)),)
        st.add_eq(t_len(tgt) - t_len(fb))
    if role:
        use(I, "A_O")
    return [(st, v, None)]


def optic_role(fr, F):
    """Inside the optic, `fwd` and `rev` are not functors on the nose: fwd : F(A) -> F(B)●M and
    rev : M●R(B) -> R(A); the sides involving the residual M are fixed by the optic's two
    debug_assert_eq!s (assumption A_O)."""
    f = fr
    while f is not None:
        if f.fn is not None and "strict::functor::optic::Optic<" in f.fn["path"] and f.fn["name"] == "map_operations":
            if str(F).endswith("fwd"):
                return "source-only"
            if str(F).endswith("rev"):
                return "target-only"
        f = f.parent
    return None


def h_map_arrow(I, st, fr, e, c, a):
    use(I, "A_F3")
    F = fkey(a[0])
    f = a[1]
    while isinstance(f, VMutRef):
        f = I.read_place(st, f.place)
    fw = f.f["h"].f["w"].f["0"].t
    name = ("user", "map_arrow", F, fw, f.f["s"].f["table"].t, f.f["t"].f["table"].t)
    v = fresh_strict_oh(I, st, name)
    w = v.f["h"].f["w"].f["0"].t
    src = ("gather", w, v.f["s"].f["table"].t)
    tgt = ("gather", w, v.f["t"].f["table"].t)
    fa = ("Fmap", F, mk_gather(st, fw, f.f["s"].f["table"].t))
    fb = ("Fmap", F, mk_gather(st, fw, f.f["t"].f["table"].t))
    st.teq = st.teq + ((src, normalise(st, fa)), (tgt, normalise(st, fb)))
    st.add_eq(t_len(src) - t_len(fa))
    st.add_eq(t_len(tgt) - t_len(fb))
    return [(st, v, None)]


def lookup(I, callee, vals):
    tr = callee.get("trait")
    n = callee["name"]
    if tr == STRICT_FUNCTOR:
        return {"map_object": h_map_object, "map_operations": h_map_operations, "map_arrow": h_map_arrow}.get(n)
    import lax_model
    return lax_model.user_contract(I, callee, vals)


def closure(I, f, args):
    """A user-supplied closure value is called."""
    key = f.key
    if "residual" in str(key):
        return h_residual
    if "apply" in str(key):
        return h_apply
    return h_generic_closure


def h_generic_closure(I, st, fr, e, c, a):
    """An opaque user closure: element-wise when applied to an arbitrary element, otherwise a
    fresh value determined by the closure and its arguments."""
    f = a[0]
    args = a[1:]
    tyd = I.facts.ty(e["ty"])
    if len(args) == 1:
        x = args[0]
        while isinstance(x, VMutRef):
            x = I.read_place(st, x.place)
        if isinstance(x, VUser) and isinstance(x.key, tuple) and x.key and x.key[0] == "elem":
            return [(st, VUser(("elem", ("umap", f.key, x.key[1]))), None)]
        if isinstance(x, VSeq) and tyd["k"] == "adt" and tyd["path"].endswith("vec::Vec"):
            import lax_model
            lf = leaf(("user", "closure", f.key, x.t))
            lax_model.LABEL_LEAVES.add(lf)
            return [(st, VSeq(lf), None)]
    if tyd["k"] in ("tuple", "adt"):
        # type-directed fresh result (e.g. the builder closure's two lists of Vars)
        name = "user:" + str(f.key)
        for x in args:
            if isinstance(x, VMutRef) and isinstance(x.place[0], tuple) and x.place[0][0] == "heap":
                # the closure may build anything on the shared state, leaving it well-formed (A_B);
                # the variables it returns belong to this builder
                use(I, "A_B")
                cur = I.read_place(st, x.place)
                if isinstance(cur, VRec) and cur.ty == inv.LOH:
                    import contracts_lax
                    I.write_place(st, x.place, contracts_lax.fresh_lax_oh(I, st, ("user", "builder-state", f.key)))
                st.env[("heap", "builder")] = VMutRef(x.place)
        return [(st, inv.symbolic(I, st, e["ty"], name, wf=True), None)]
    return [(st, VUser(("user", "closure", f.key, tuple(repr(x)[:80] for x in args))), None)]


def h_residual(I, st, fr, e, c, a):
    use(I, "A_R")
    ops = a[1]
    while isinstance(ops, VMutRef):
        ops = I.read_place(st, ops.place)
    xt = ops.f["x"].f["0"].t
    name = ("user", "residual", xt)
    sizes = leaf((name, "sizes"))
    vals = leaf((name, "values"))
    v = VRec(inv.IC, {"sources": ff(sizes, t_sum(sizes) + 1), "values": semi(vals)})
    inv.assume_inv(I, st, v)
    st.add_eq(t_len(sizes) - t_len(xt))
    return [(st, v, None)]


def h_apply(I, st, fr, e, c, a):
    use(I, "A_E")
    labels = a[1]
    inputs = a[2]
    lt = labels.f["0"].t
    name = ("user", "apply", lt, inputs.f["values"].f["0"].t)
    sizes = leaf((name, "sizes"))
    vals = leaf((name, "values"))
    v = VRec(inv.IC, {"sources": ff(sizes, t_sum(sizes) + 1), "values": semi(vals)})
    inv.assume_inv(I, st, v)
    st.add_eq(t_len(sizes) - t_len(lt))
    # call-site obligation: the labels and the inputs handed to `apply` describe the SAME operations in the same
    # order (both are re-indexings along one selection of the operations)
    from values import normalise, terms_equal, mk_arange, show_term

    def selection(t):
        t = normalise(st, t)
        return t[2] if t[0] == "gather" else mk_arange(0, t_len(t))
    isz = inputs.f["sources"].f["table"].t
    ok = terms_equal(st, selection(lt), selection(isz))
    I.oblige("ENS", fr, e, "eval: apply receives the labels and the inputs of the same operations (one selection, one order)",
             f"selection of labels {show_term(selection(lt))[:120]} ≡ selection of input segments {show_term(selection(isz))[:120]}",
             ok, "call-site" if ok else "", detail="" if ok else I.describe(st))
    return [(st, v, None)]
