"""Inventory of the exported program: counts used as floors (fail closed when the analysed
program shrinks below what was confirmed by hand on the pinned tree)."""
from ir import walk


def collect(facts):
    inv = {"struct_literals": {}, "unwrap_expect": 0, "asserts": 0, "fns_by_module": {}, "mir_asserts": 0,
           "mir_calls": 0, "loops": 0, "closures": facts.n_closures, "body_owners": facts.n_body_owners}
    for p, fn in facts.fns.items():
        mod = fn["sp"].split(":")[0]
        inv["fns_by_module"][mod] = inv["fns_by_module"].get(mod, 0) + 1
        inv["mir_asserts"] += len(fn.get("mir_asserts", []))
        inv["mir_calls"] += len(fn.get("mir_calls", []))

        def visit(e):
            k = e["k"]
            if k == "struct" and e.get("name"):
                key = e.get("path", e["name"])
                inv["struct_literals"][key] = inv["struct_literals"].get(key, 0) + 1
            if k == "call" and e.get("callee"):
                d = e["callee"]["def"]
                if d.endswith("::unwrap") or d.endswith("::expect"):
                    inv["unwrap_expect"] += 1
                if "assert_failed" in d or "panicking::panic" in d:
                    inv["asserts"] += 1
            if k == "loop":
                inv["loops"] += 1
        walk(fn["body"], visit)
    inv["mir_calls_not_in_hir"] = mir_cross_check(facts)
    return inv


IMPLICIT = {"std::ops::Deref::deref", "std::ops::DerefMut::deref_mut", "std::ops::Fn::call",
            "std::ops::FnOnce::call_once", "std::ops::FnMut::call_mut"}


def mir_cross_check(facts):
    """E4 completeness self-check: every call edge rustc's MIR has for a function must be visible in the
    exported typed HIR of that function (as a resolved callee), except the implicit calls that HIR
    records as adjustments (overloaded deref) or as calls of closure values."""
    missing = []
    for p, fn in facts.fns.items():
        hir = set()

        def v(n):
            c = n.get("callee")
            if c:
                hir.add(c["def"])
                if c.get("res"):
                    hir.add(c["res"])
            if n["k"] == "path" and n["res"].get("callee"):
                cc = n["res"]["callee"]
                hir.add(cc["def"])
                if cc.get("res"):
                    hir.add(cc["res"])
            if n["k"] == "ctor":
                hir.add(n["path"])
        walk(fn["body"], v)
        for c in fn.get("mir_calls", []):
            if c["def"] not in hir and c["def"] not in IMPLICIT:
                missing.append({"fn": p, "callee": c["def"], "sp": c["sp"]})
    return missing
