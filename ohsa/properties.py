"""Which analysed entry points and which structural rules decide which clause of which property.
(DESIGN.md §7.)  `entries`: substrings of entry keys (def paths); `anchors`: functions that must
exist in the exported program (fail closed); `rules`: E2 rule names; `spec`: ENS/REJ spec groups."""

S_OH = "strict::open_hypergraph::arrow::OpenHypergraph"
S_H = "strict::hypergraph::object::Hypergraph"
FFN = "finite_function::arrow::FiniteFunction"
ICN = "indexed_coproduct::arrow::IndexedCoproduct"

PROPS = {
    "C01": {
        "clause": "strict and lax composition: composition fails (None) instead of panicking on a type mismatch; the lax "
                  "composite is the juxtaposition with the i-th target of f unified with the i-th source of g; the strict construction is the typed "
                  "pushout cospan: both coequalised legs land in one node space whose labels agree on the glued "
                  "pairs (rule FIBRE), the result is well-formed and typed source(f) -> target(g), and every leg, incidence "
                  "list and node label of the result is the operand's mapped through the coequalizer q of (f.t, g.s) "
                  "injected into the disjoint union (term equality; a result not written through q is reported)",
        "entries": [f"<{S_OH}<K, O, A> as category::traits::Arrow>::compose",
                    f"<&{S_OH}<K, O, A> as std::ops::Shr<",
                    f"{S_H}::<K, O, A>::coequalize_vertices",
                    f"{FFN}::<K>::coequalizer", "finite_function::arrow::coequalizer_universal",
                    "Arrow for lax::open_hypergraph::OpenHypergraph<O, A>>::compose",
                    "lax::category::<impl lax::open_hypergraph::OpenHypergraph<O, A>>::lax_compose",
                    "Shr<&lax::open_hypergraph::OpenHypergraph<O, A>> for &lax::open_hypergraph::OpenHypergraph<O, A>>::shr",
                    "lax::hypergraph::Hypergraph::<O, A>::unify", "lax::open_hypergraph::OpenHypergraph::<O, A>::unify"],
        "anchors": [f"<{S_OH}<K, O, A> as category::traits::Arrow>::compose", f"{S_H}::<K, O, A>::coequalize_vertices",
                    f"{FFN}::<K>::coequalizer", "finite_function::arrow::coequalizer_universal"],
        "rules": [], "level": "proof",
    },
    "C02": {
        "clause": "tensor/coproduct are juxtaposition: every field of the result is the left operand's data followed "
                  "by the right operand's shifted by the left node count (term equality), strict and lax; results well-formed",
        "entries": [f"<{S_OH}<K, O, A> as category::traits::Monoidal>::tensor", f"<&{S_OH}<K, O, A> as std::ops::BitOr<",
                    f"{S_H}::<K, O, A>::coproduct", f"<&{S_H}<K, O, A> as std::ops::Add<",
                    f"{ICN}::<K, {FFN}<K>>::tensor", f"{ICN}::<K, F>::coproduct",
                    f"<{FFN}<K> as category::traits::Monoidal>::tensor",
                    f"<{FFN}<K> as category::traits::Coproduct>::coproduct",
                    "lax::open_hypergraph::OpenHypergraph::<O, A>::tensor", "lax::hypergraph::Hypergraph::<O, A>::coproduct",
                    "Monoidal for lax::open_hypergraph::OpenHypergraph<O, A>>::tensor",
                    "lax::mut_category::"],      # the in-place forms of the same juxtaposition
        "anchors": [f"<{S_OH}<K, O, A> as category::traits::Monoidal>::tensor", f"{S_H}::<K, O, A>::coproduct",
                    "lax::open_hypergraph::OpenHypergraph::<O, A>::tensor"],
        "rules": [], "level": "proof",
    },
    "C04": {
        "clause": "dagger swaps the legs and leaves the hypergraph untouched (provenance); spider construction "
                  "accepts iff both legs land in the node list and builds a discrete diagram; half_spider = identity target leg; "
                  "the composition the spider-fusion and dagger-contravariance laws are stated with glues through the "
                  "coequalizer of the two boundary legs and through nothing else (strict and lax compose)",
        "entries": [f"<{S_OH}<K, O, A> as category::spider::Spider<K>>::", f"{S_OH}::<K, O, A>::spider",
                    f"<{S_OH}<K, O, A> as category::traits::Arrow>::compose",
                    "Arrow for lax::open_hypergraph::OpenHypergraph<O, A>>::compose",
                    "lax::category::<impl lax::open_hypergraph::OpenHypergraph<O, A>>::lax_compose",
                    "category::spider::Spider::half_spider",
                    "Spider<array::vec::vec_array::VecKind> for lax::open_hypergraph::OpenHypergraph<O, A>>::",
                    "lax::open_hypergraph::OpenHypergraph::<O, A>::spider",
                    f"<{S_OH}<K, O, A> as category::traits::SymmetricMonoidal>::twist",
                    "SymmetricMonoidal for lax::open_hypergraph::OpenHypergraph<O, A>>::twist",
                    f"{S_OH}::<K, O, A>::identity", "lax::open_hypergraph::OpenHypergraph::<O, A>::identity"],
        "anchors": [f"<{S_OH}<K, O, A> as category::spider::Spider<K>>::dagger", f"{S_OH}::<K, O, A>::spider",
                    "category::spider::Spider::half_spider", "lax::open_hypergraph::OpenHypergraph::<O, A>::spider"],
        "rules": [], "level": "proof",
    },
    "C05": {
        "clause": "every value leaving a public constructor/operation satisfies its struct invariant (INV at every "
                  "return), the promised source/target types hold as label-array term equalities (ENS), and each "
                  "checked constructor accepts iff its documented condition (ACC + REJ)",
        "entries": ["strict::open_hypergraph::", "strict::hypergraph::object::", "indexed_coproduct::arrow::",
                    f"{FFN}::<K>::new", "operations::", "strict::functor::", "lax::open_hypergraph::",
                    "lax::hypergraph::Hypergraph::<O, A>::to_hypergraph", "lax::hypergraph::Hypergraph::<O, A>::from_strict",
                    "lax::category::"],
        "anchors": [f"{S_OH}::<K, O, A>::validate", f"{S_H}::<K, O, A>::validate", f"{ICN}::<K, F>::new",
                    f"{FFN}::<K>::new", "operations::Operations::<K, O, A>::validate"],
        "rules": ["NONEXH"], "level": "proof",
    },
    "C06": {
        "clause": "every FiniteFunction operation returns a function whose table stays below its codomain; partial "
                  "operations are defined exactly on the documented dimension condition and never panic; "
                  "coequalizer_universal reports absence instead of panicking",
        "entries": ["finite_function::arrow::", "semifinite::types::"],
        "anchors": [f"{FFN}::<K>::new", f"{FFN}::<K>::injections", f"{FFN}::<K>::coequalizer",
                    "finite_function::arrow::coequalizer_universal", "semifinite::types::compose_semifinite"],
        "rules": [], "level": "other",
    },
    "C07": {
        "clause": "the Vec backend's primitives agree with the array contract the rest of the library is analysed against "
                  "(VECSPEC): for symbolic arguments inside the contract's preconditions, the return value and the "
                  "post-state of every VecArray primitive are term-equal to the contract's scalar definition (loops "
                  "summarised exactly by the fold idioms: element-wise map, append, indexed in-place update, running "
                  "sum, conditional push); open choices (scatter filler) as refinements; plus the six default methods "
                  "of the array traits (to_range exactly). NOT decided (declared by rule VECCOVER): connected_components "
                  "(union-find) and sparse_bincount (hash map)",
        "entries": ["array::traits::", "array::vec::vec_array::VecArray<", "array::vec::vec_array::<impl std::ops::Add<"],
        "anchors": ["array::traits::Array::to_range", "array::traits::NaturalArray::segmented_sum",
                    "array::traits::NaturalArray::segmented_arange", "array::traits::NaturalArray::sum",
                    "array::traits::OrdArray::sort_by", "array::traits::Array::is_empty",
                    "NaturalArray<array::vec::vec_array::VecKind>>::scatter_sub_assign",
                    "NaturalArray<array::vec::vec_array::VecKind>>::bincount",
                    "Array<array::vec::vec_array::VecKind, T>>::gather"],
        "rules": ["VECCOVER"], "level": "proof",
    },
    "C08": {
        "clause": "segmented arrays: checked construction accepts iff sizes sum to the value length (codomain sum+1); "
                  "every operation re-establishes that invariant with the declared number of segments; iterators slice "
                  "within bounds, advance, and report the number of segments still to come",
        "entries": ["indexed_coproduct::", "operations::"],
        "anchors": [f"{ICN}::<K, F>::new", f"{ICN}::<K, F>::map_indexes", f"{ICN}::<K, {FFN}<K>>::flatmap",
                    "IndexedCoproductFiniteFunctionIterator<K> as std::iter::Iterator>::next",
                    "IndexedCoproductSemifiniteFunctionIterator<K, T> as std::iter::Iterator>::next"],
        "rules": ["NONEXH"], "level": "proof",
    },
    "C12": {
        "clause": "NARROW: typing F(A) -> F(B) of functor application as label-array term equalities under the "
                  "documented functor contract (A_F1, A_F2); all glue unwraps discharged; results well-formed",
        "entries": ["strict::functor::traits::", "strict::functor::identity::", "lax::functor::dyn_functor::",
                    "lax::functor::traits::try_define_map_arrow", "lax::functor::traits::map_arrow_witness"],
        "anchors": ["strict::functor::traits::define_map_arrow", "lax::functor::dyn_functor::define_map_arrow"],
        "rules": [], "level": "proof",
    },
    "C14": {
        "clause": "NARROW: optic typing — object map interleaves F and R blocks with the segmented-array invariant; "
                  "adapt/partial_dagger are typed FA●RB -> FB●RA as ordered label-array terms; unwraps discharged",
        "entries": ["strict::functor::optic::", "lax::optic::"],
        "anchors": ["strict::functor::optic::Optic::<F, R, K, O1, A1, O2, A2>::adapt",
                    "Functor<K, O1, A1, O2, A2>>::map_operations"],
        "rules": [], "level": "proof",
    },
    "C15": {
        "clause": "NARROW: totality — layer and layered_operations return for every well-formed diagram (every "
                  "panic path infeasible, loop included); result shapes; dependency direction by provenance; one "
                  "iteration of kahn's loop is the documented step (mark the frontier visited, set its order to the depth, "
                  "subtract the frontier's contribution from the indegrees persistently, next frontier = reachable "
                  "unvisited nodes of indegree 0, depth + 1), in either marking discipline; `converse` meets its doc "
                  "comment (callee-level spec); sparse_bincount counts are consumed only together with their keys",
        "entries": ["strict::layer::"],
        "anchors": ["strict::layer::layer", "strict::layer::layered_operations"],
        "rules": [], "level": "proof",
    },
    "C16": {
        "clause": "NARROW: eval refuses exactly when layer reports an unvisited operation (a refusal on a path that "
                  "did not consult the layering is rejected), otherwise returns (no panic) under the documented apply "
                  "contract; result length |f.t|; at the call of `apply` the operation labels and the input segments are "
                  "re-indexings along ONE selection; a scattered memory is read only where it was written; the kahn "
                  "step of C15",
        "entries": ["strict::eval::"],
        "anchors": ["strict::eval::eval", "strict::layer::layer"],
        "rules": [], "level": "proof",
    },
    "C17": {
        "clause": "NARROW: totality of is_acyclic, is_monogamous, in_degree, out_degree for every well-formed "
                  "diagram, debug = release (array subtraction is an obligation); only documented requires node < |w|; "
                  "is_monogamous / is_discrete / is_injective answer a formula equivalent to their definition on every "
                  "path (boolean spec; not decided when the answer is an uninterpreted boolean); in_degree / out_degree "
                  "depend on exactly the incidence they name (DEP); the kahn step of C15 behind is_acyclic",
        "entries": [f"{S_OH}::<K, O, A>::is_acyclic", f"{S_OH}::<K, O, A>::is_monogamous",
                    "acyclic::<impl strict::hypergraph::object::Hypergraph<K, O, A>>::is_acyclic",
                    f"{S_H}::<K, O, A>::in_degree", f"{S_H}::<K, O, A>::out_degree"],
        "anchors": [f"{S_OH}::<K, O, A>::is_monogamous", f"{S_H}::<K, O, A>::in_degree", f"{S_H}::<K, O, A>::out_degree",
                    "::is_acyclic"],
        "rules": [], "level": "proof",
    },
    "C18": {
        "clause": "NARROW: validation accepts only when all four naturality equalities (segment sizes included) are "
                  "entailed and names the failed one (REJ per error variant); is_convex_subgraph returns (no panic) for "
                  "every validated arrow, loop included, answers true only on paths that established injectivity of BOTH "
                  "maps, never abandons an outside path that still has successors (step condition of the search loop), and "
                  "builds its adjacencies with source incidence first and target incidence second (callee-level role spec)",
        "entries": ["strict::hypergraph::arrow::"],
        "anchors": ["strict::hypergraph::arrow::HypergraphArrow::<K, O, A>::validate",
                    "strict::hypergraph::arrow::HypergraphArrow::<K, O, A>::is_monomorphism",
                    "strict::hypergraph::arrow::HypergraphArrow::<K, O, A>::is_convex_subgraph"],
        "rules": [], "level": "proof",
    },
}

PROPS.update({
    "C09": {
        "clause": "quotient returns the connected-components map of the pending unifications; on failure the diagram "
                  "is exactly as before (atomic); on success every node reference (edge sources/targets, both "
                  "interfaces) is replaced by its image, edges/labels/order untouched, every node keeps its label "
                  "class, pending unifications cleared; result well-formed; unify records exactly the pair it is given "
                  "(the pending list quotient later merges)",
        "entries": ["lax::hypergraph::Hypergraph::<O, A>::quotient", "lax::open_hypergraph::OpenHypergraph::<O, A>::quotient",
                    "lax::hypergraph::Hypergraph::<O, A>::coequalizer",
                    "lax::hypergraph::Hypergraph::<O, A>::unify", "lax::open_hypergraph::OpenHypergraph::<O, A>::unify"],
        "anchors": ["lax::hypergraph::Hypergraph::<O, A>::quotient", "lax::open_hypergraph::OpenHypergraph::<O, A>::quotient",
                    "lax::hypergraph::Hypergraph::<O, A>::coequalizer", "finite_function::arrow::coequalizer_universal"],
        "rules": ["DELEG"], "level": "proof",
    },
    "C10": {
        "clause": "in-place tensor/append/coproduct produce exactly the pure results (same term-level spec); lax compose "
                  "is defined iff the boundary types match and lax_compose iff the arities match, with the stated "
                  "wiring; to_strict/from_strict/identity/spider/twist/dagger/singleton are well-formed and typed as "
                  "their strict counterparts",
        "entries": ["lax::mut_category::", "lax::category::", "lax::open_hypergraph::OpenHypergraph::<O, A>::to_strict",
                    "lax::open_hypergraph::OpenHypergraph::<O, A>::to_open_hypergraph",
                    "lax::open_hypergraph::OpenHypergraph::<O, A>::from_strict", "lax::hypergraph::Hypergraph::<O, A>::from_strict",
                    "lax::hypergraph::Hypergraph::<O, A>::to_hypergraph", "lax::open_hypergraph::OpenHypergraph::<O, A>::tensor",
                    "lax::open_hypergraph::OpenHypergraph::<O, A>::identity", "lax::open_hypergraph::OpenHypergraph::<O, A>::spider",
                    "lax::open_hypergraph::OpenHypergraph::<O, A>::singleton", "lax::hypergraph::Hypergraph::<O, A>::coproduct"],
        "anchors": ["lax_compose", "coproduct_assign", "tensor_assign", "::append",
                    "lax::open_hypergraph::OpenHypergraph::<O, A>::to_strict"],
        "rules": ["DELEG"], "level": "proof",
    },
    "C11": {
        "clause": "builder calls return fresh identifiers and touch only the fields they name (term-level post-state "
                  "specs with frame conditions); deletions reject out-of-range identifiers before any effect, keep "
                  "edges/adjacency paired, renumber every NodeId-bearing place through the reported map (structural "
                  "rules); serde derives and documented field names (serde configuration)",
        "entries": ["lax::hypergraph::Hypergraph::<O, A>::new_", "lax::hypergraph::Hypergraph::<O, A>::add_edge_",
                    "lax::hypergraph::Hypergraph::<O, A>::unify", "lax::hypergraph::Hypergraph::<O, A>::delete_",
                    "lax::hypergraph::Hypergraph::<O, A>::with_", "lax::hypergraph::Hypergraph::<O, A>::map_",
                    "lax::hypergraph::Hypergraph::<O, A>::empty", "lax::hypergraph::Hypergraph::<O, A>::discrete",
                    "lax::open_hypergraph::OpenHypergraph::<O, A>::new_", "lax::open_hypergraph::OpenHypergraph::<O, A>::add_edge_",
                    "lax::open_hypergraph::OpenHypergraph::<O, A>::unify", "lax::open_hypergraph::OpenHypergraph::<O, A>::delete_",
                    "lax::open_hypergraph::OpenHypergraph::<O, A>::with_", "lax::open_hypergraph::OpenHypergraph::<O, A>::map_",
                    "lax::open_hypergraph::OpenHypergraph::<O, A>::empty"],
        "anchors": ["lax::hypergraph::Hypergraph::<O, A>::new_node", "lax::hypergraph::Hypergraph::<O, A>::new_edge",
                    "lax::hypergraph::Hypergraph::<O, A>::delete_nodes_witness", "lax::hypergraph::Hypergraph::<O, A>::delete_edges",
                    "lax::open_hypergraph::OpenHypergraph::<O, A>::delete_nodes"],
        "rules": ["DELETE", "SERDE", "DELEG"], "level": "proof",
    },
    "C13": {
        "clause": "NARROW: both native lax functor entry points return None for diagrams with pending unifications and "
                  "are total on quotient-free ones (REJ under the functor's typing contract); failures inside are "
                  "propagated as None (no panic path); the witness is a well-formed segmented array with one segment per "
                  "input node, of |F(label)| entries each, over the result's nodes, and the output nodes it selects carry "
                  "the labels F(label) in order (never nodes of the operation images); every hyperedge is replaced by the "
                  "image of its operation (accumulation step)",
        "entries": ["lax::functor::traits::"],
        "anchors": ["lax::functor::traits::try_define_map_arrow", "lax::functor::traits::map_arrow_witness"],
        "rules": [], "level": "proof",
    },
    "C19": {
        "clause": "NARROW: the Var/operator builders never panic on a well-formed builder state (every index into the "
                  "shared state is in range), leave it well-formed, and build() returns Ok or hands the state back; "
                  "Forget/ForgetMonogamous::map_operation return well-formed diagrams for every label mix (the spider "
                  "branch is reached only with uniform labels); Forget::map_operation removes a hyperedge only on a path "
                  "that established `a == var` and uniform incident labels, replaces it by ONE merged node carrying every "
                  "leg position (nothing for 0 -> 0) and keeps every other operation as the singleton of its own label; "
                  "ForgetMonogamous additionally only for 1 -> 1; no RefCell borrow overlaps another",
        "entries": ["lax::var::"],
        "anchors": ["lax::var::var::Var::<O, A>::new", "lax::var::var::build", "lax::var::operators::operation",
                    "lax::var::forget::forget"],
        "rules": ["REFCELL", "FORGET"], "level": "proof",
    },
    "C20": {
        "clause": "NARROW: (a) the strict algorithms are written against the array interface only — every public item of the "
                  "generic modules is generic in K (audit over the exported program) and type-checks at a second, "
                  "foreign ArrayKind (compile-pass witness); external crates cannot bypass the checked constructors of "
                  "the non_exhaustive types (compile-fail witness); (b) the public consumers of the backend's open choices "
                  "(connected_components numbering, scatter filler, argsort tie order, sparse_bincount key order) meet "
                  "their typing / well-formedness / value obligations when those primitives are modelled by their "
                  "documented contract ALONE (uninterpreted numbering / filler / order), so no proof step can lean on an "
                  "accident of the Vec backend",
        "premises_skip": ("array::vec::",),      # backend independence never rests on the Vec backend
        "entries": [f"<{S_OH}<K, O, A> as category::traits::Arrow>::compose", f"<&{S_OH}<K, O, A> as std::ops::Shr<",
                    f"{S_H}::<K, O, A>::coequalize_vertices", f"{FFN}::<K>::coequalizer",
                    f"{FFN}::<K>::coequalizer_universal", "finite_function::arrow::coequalizer_universal",
                    "strict::functor::traits::define_map_arrow", "strict::layer::layer", "strict::layer::layered_operations",
                    "strict::eval::eval", "::is_acyclic", "HypergraphArrow::<K, O, A>::is_convex_subgraph"],
        "anchors": ["array::traits::Array::to_range", f"{S_H}::<K, O, A>::coequalize_vertices", f"{FFN}::<K>::coequalizer",
                    "strict::layer::layer", "strict::eval::eval"],
        "rules": ["GENERIC", "NONEXH"], "level": "other",
    },
})

NOT_APPLICABLE = {
    "C03": "the laws equate, up to isomorphism, results of different computation paths; no clause of them is "
           "visible in code shape beyond the per-operation typing already decided under C01/C02/C04/C05",
}
