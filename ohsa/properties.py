"""Which analysed entry points and which structural rules decide which clause of which property.
(DESIGN.md §7.)  `entries`: substrings of entry keys (def paths); `anchors`: functions that must
exist in the exported program (fail closed); `rules`: E2 rule names; `spec`: ENS/REJ spec groups."""

S_OH = "strict::open_hypergraph::arrow::OpenHypergraph"
S_H = "strict::hypergraph::object::Hypergraph"
FFN = "finite_function::arrow::FiniteFunction"
ICN = "indexed_coproduct::arrow::IndexedCoproduct"

PROPS = {
    "C01": {
        "clause": "composition fails (None) instead of panicking on a type mismatch; the construction is the typed "
                  "pushout cospan: both coequalised legs land in one node space whose labels agree on the glued "
                  "pairs (rule FIBRE), the result is well-formed and typed source(f) -> target(g)",
        "entries": [f"<{S_OH}<K, O, A> as category::traits::Arrow>::compose",
                    f"<&{S_OH}<K, O, A> as std::ops::Shr<",
                    f"{S_H}::<K, O, A>::coequalize_vertices",
                    f"{FFN}::<K>::coequalizer", "finite_function::arrow::coequalizer_universal"],
        "anchors": [f"{S_OH}::<K, O, A>::compose", f"{S_H}::<K, O, A>::coequalize_vertices",
                    f"{FFN}::<K>::coequalizer", "finite_function::arrow::coequalizer_universal"],
        "rules": [], "level": "proof",
    },
    "C02": {
        "clause": "tensor/coproduct are juxtaposition: every field of the result is the left operand's data followed "
                  "by the right operand's shifted by the left node count (term equality), strict and lax; results well-formed",
        "entries": [f"<{S_OH}<K, O, A> as category::traits::Monoidal>::tensor", f"<&{S_OH}<K, O, A> as std::ops::BitOr<",
                    f"{S_H}::<K, O, A>::coproduct", f"<&{S_H}<K, O, A> as std::ops::Add<",
                    f"{ICN}::<K, {FFN}<K>>::tensor", f"{ICN}::<K, F>::coproduct",
                    f"<{FFN}<K> as category::traits::Monoidal>::tensor",
                    f"<{FFN}<K> as category::traits::Coproduct>::coproduct",
                    "lax::open_hypergraph::OpenHypergraph::<O, A>::tensor", "lax::hypergraph::Hypergraph::<O, A>::coproduct",
                    "Monoidal for lax::open_hypergraph::OpenHypergraph<O, A>>::tensor"],
        "anchors": [f"<{S_OH}<K, O, A> as category::traits::Monoidal>::tensor", f"{S_H}::<K, O, A>::coproduct",
                    "lax::open_hypergraph::OpenHypergraph::<O, A>::tensor", "lax::hypergraph::Hypergraph::<O, A>::coproduct"],
        "rules": [], "level": "proof",
    },
    "C04": {
        "clause": "dagger swaps the legs and leaves the hypergraph untouched (provenance); spider construction "
                  "accepts iff both legs land in the node list and builds a discrete diagram; half_spider = identity target leg",
        "entries": [f"<{S_OH}<K, O, A> as category::spider::Spider<K>>::", f"{S_OH}::<K, O, A>::spider",
                    "category::spider::Spider::half_spider",
                    "Spider<array::vec::vec_array::VecKind> for lax::open_hypergraph::OpenHypergraph<O, A>>::",
                    "lax::open_hypergraph::OpenHypergraph::<O, A>::spider"],
        "anchors": [f"<{S_OH}<K, O, A> as category::spider::Spider<K>>::dagger", f"{S_OH}::<K, O, A>::spider",
                    "category::spider::Spider::half_spider", "lax::open_hypergraph::OpenHypergraph::<O, A>::spider"],
        "rules": [], "level": "proof",
    },
    "C05": {
        "clause": "every value leaving a public constructor/operation satisfies its struct invariant (INV at every "
                  "return), the promised source/target types hold as label-array term equalities (ENS), and each "
                  "checked constructor accepts iff its documented condition (ACC + REJ)",
        "entries": ["strict::open_hypergraph::", "strict::hypergraph::object::", "indexed_coproduct::arrow::",
                    f"{FFN}::<K>::new", "operations::", "strict::functor::", "lax::open_hypergraph::",
                    "lax::hypergraph::Hypergraph::<O, A>::to_hypergraph", "lax::hypergraph::Hypergraph::<O, A>::from_strict",
                    "lax::category::"],
        "anchors": [f"{S_OH}::<K, O, A>::validate", f"{S_H}::<K, O, A>::validate", f"{ICN}::<K, F>::validate",
                    f"{FFN}::<K>::new", "operations::Operations::<K, O, A>::validate"],
        "rules": ["NONEXH"], "level": "proof",
    },
    "C06": {
        "clause": "every FiniteFunction operation returns a function whose table stays below its codomain; partial "
                  "operations are defined exactly on the documented dimension condition and never panic; "
                  "coequalizer_universal reports absence instead of panicking",
        "entries": ["finite_function::arrow::", "semifinite::types::"],
        "anchors": [f"{FFN}::<K>::new", f"{FFN}::<K>::injections", f"{FFN}::<K>::coequalizer",
                    "finite_function::arrow::coequalizer_universal", "semifinite::types::compose_semifinite"],
        "rules": [], "level": "other",
    },
    "C07": {
        "clause": "NARROW: the six default methods of the array traits (to_range exactly; shapes and internal "
                  "preconditions of sum, sort_by, segmented_sum, segmented_arange, is_empty); the Vec loops are not decided",
        "entries": ["array::traits::"],
        "anchors": ["array::traits::Array::to_range", "array::traits::NaturalArray::segmented_sum",
                    "array::traits::NaturalArray::segmented_arange", "array::traits::NaturalArray::sum",
                    "array::traits::OrdArray::sort_by", "array::traits::Array::is_empty"],
        "rules": [], "level": "proof",
    },
    "C08": {
        "clause": "segmented arrays: checked construction accepts iff sizes sum to the value length (codomain sum+1); "
                  "every operation re-establishes that invariant with the declared number of segments; iterators slice "
                  "within bounds, advance, and report the number of segments still to come",
        "entries": ["indexed_coproduct::", "operations::"],
        "anchors": [f"{ICN}::<K, F>::validate", f"{ICN}::<K, F>::map_indexes", f"{ICN}::<K, {FFN}<K>>::flatmap",
                    "IndexedCoproductFiniteFunctionIterator<K> as std::iter::Iterator>::next",
                    "IndexedCoproductSemifiniteFunctionIterator<K, T> as std::iter::Iterator>::next"],
        "rules": ["ITER"], "level": "proof",
    },
    "C12": {
        "clause": "NARROW: typing F(A) -> F(B) of functor application as label-array term equalities under the "
                  "documented functor contract (A_F1, A_F2); all glue unwraps discharged; results well-formed",
        "entries": ["strict::functor::traits::", "strict::functor::identity::", "lax::functor::dyn_functor::"],
        "anchors": ["strict::functor::traits::define_map_arrow", "strict::functor::traits::spider_map_arrow",
                    "strict::functor::traits::map_half_spider", "strict::functor::traits::to_operations"],
        "rules": [], "level": "proof",
    },
    "C14": {
        "clause": "NARROW: optic typing — object map interleaves F and R blocks with the segmented-array invariant; "
                  "adapt/partial_dagger are typed FA●RB -> FB●RA as ordered label-array terms; unwraps discharged",
        "entries": ["strict::functor::optic::", "lax::optic::"],
        "anchors": ["strict::functor::optic::Optic::<F, R, K, O1, A1, O2, A2>::adapt",
                    "strict::functor::optic::partial_dagger", "strict::functor::optic::interleave_blocks"],
        "rules": [], "level": "proof",
    },
    "C15": {
        "clause": "NARROW: totality — layer and layered_operations return for every well-formed diagram (every "
                  "panic path infeasible, loop included); result shapes; dependency direction by provenance",
        "entries": ["strict::layer::"],
        "anchors": ["strict::layer::layer", "strict::layer::layered_operations", "strict::graph::kahn",
                    "strict::graph::operation_adjacency", "strict::graph::converse",
                    "strict::graph::sparse_relative_indegree", "strict::graph::dense_relative_indegree"],
        "rules": ["DEP"], "level": "proof",
    },
    "C16": {
        "clause": "NARROW: eval refuses exactly when layer reports an unvisited operation, otherwise returns "
                  "(no panic) under the documented apply contract; result length |f.t|",
        "entries": ["strict::eval::"],
        "anchors": ["strict::eval::eval", "strict::eval::eval_order", "strict::layer::layer"],
        "rules": ["GUARD", "DEP"], "level": "proof",
    },
    "C17": {
        "clause": "NARROW: totality of is_acyclic, is_monogamous, in_degree, out_degree for every well-formed "
                  "diagram, debug = release (array subtraction is an obligation); only documented requires node < |w|",
        "entries": [f"{S_OH}::<K, O, A>::is_acyclic", f"{S_OH}::<K, O, A>::is_monogamous",
                    "acyclic::<impl strict::hypergraph::object::Hypergraph<K, O, A>>::is_acyclic",
                    f"{S_H}::<K, O, A>::in_degree", f"{S_H}::<K, O, A>::out_degree"],
        "anchors": [f"{S_OH}::<K, O, A>::is_monogamous", f"{S_H}::<K, O, A>::in_degree", f"{S_H}::<K, O, A>::out_degree",
                    "strict::graph::node_adjacency", "strict::graph::kahn"],
        "rules": ["DEP"], "level": "proof",
    },
    "C18": {
        "clause": "NARROW: validation requires all four naturality comparisons and names the failed one; "
                  "is_convex_subgraph returns (no panic) for every validated arrow, loop included",
        "entries": ["strict::hypergraph::arrow::"],
        "anchors": ["strict::hypergraph::arrow::HypergraphArrow::<K, O, A>::validate",
                    "strict::hypergraph::arrow::HypergraphArrow::<K, O, A>::is_monomorphism",
                    "strict::hypergraph::arrow::HypergraphArrow::<K, O, A>::is_convex_subgraph"],
        "rules": ["ERRMAP", "DEP", "GUARD"], "level": "proof",
    },
}

NOT_APPLICABLE = {
    "C03": "the laws equate, up to isomorphism, results of different computation paths; no clause of them is "
           "visible in code shape beyond the per-operation typing already decided under C01/C02/C04/C05",
}
