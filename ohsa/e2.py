"""E2: small structural rules over the exported facts (see DESIGN.md §5)."""


def run_all(facts, serde_facts, tier):
    out = {}
    import importlib
    for name in RULES:
        mod = importlib.import_module("rules." + name.lower())
        try:
            out[name] = mod.run(facts, serde_facts, tier)
        except Exception as ex:  # fail closed: the rule did not decide anything
            import traceback
            out[name] = {"error": f"{type(ex).__name__}: {ex}", "trace": traceback.format_exc()[-800:]}
    return out


RULES = ["DELEG", "DELETE", "SERDE", "REFCELL", "FORGET", "GENERIC", "NONEXH", "VECCOVER"]
