"""VECSPEC (C07): the Vec backend against the array contract.

The strict algorithms are analysed against the array CONTRACT (prims.py: one transfer function and precondition per
trait method).  This module closes the other side: every method of `VecArray` that implements a contract primitive is
analysed as an entry point of its own, from a state in which the contract's preconditions are assumed, and its result
(return value and post-state of `&mut self`) must be TERM-EQUAL to what the contract's transfer function returns for
the same symbolic arguments — "sibling implementations of one interface agree", with the axiomatic side as reference.
Loops are summarised exactly by the fold idioms of lax_model (indexed in-place update, running scalar, conditional
push, append); a loop outside those idioms leaves a summarised value and the clause is reported as not decided.

Where the contract leaves a choice open the reference is a refinement test instead of an equality (REFINE below).
Outside the reach of this analysis (declared, not claimed): connected_components (union-find with path compression)
; `sparse_bincount` is analysed through the counting-map model of mapmodel.py."""
import prims
import stdlib
from poly import Poly, as_poly, show_poly
from values import *

VEC_FILE = "src/array/vec/vec_array.rs"
CONTRACT_TRAITS = ("array::traits::Array", "array::traits::OrdArray", "array::traits::NaturalArray")
OUT_OF_REACH = {"connected_components": "union-find with path compression (pointer-chasing loops): not summarised"}
TRIVIAL = {"empty", "len", "from_slice"}
OPERATORS = {"add", "sub"}


def is_vec_entry(fn):
    if not fn["sp"].startswith(VEC_FILE):
        return False
    if fn.get("impl_trait") in CONTRACT_TRAITS:
        return fn["name"] not in OUT_OF_REACH
    if fn.get("impl_trait") in ("std::ops::Add", "std::ops::Sub") and fn["name"] in OPERATORS:
        return True
    return False


def declared_out_of_reach(facts):
    out = []
    for p, fn in facts.fns.items():
        if fn["sp"].startswith(VEC_FILE) and fn.get("impl_trait") in CONTRACT_TRAITS and fn["name"] in OUT_OF_REACH:
            out.append({"fn": p, "why": OUT_OF_REACH[fn["name"]]})
    return out


def reference(sc, fn, args, st, fr0):
    """Run the contract's transfer function on the entry's own symbolic arguments.  Its failed preconditions become
    the entry's assumptions (they are what every caller is held to); its result is the reference value.
    Returns dict(ret=value, posts={root: value}, assumed=[...]) or None when the method has no contract primitive."""
    I = sc.I
    name = fn["name"]
    node = {"sp": fn["sp"], "ty": fn["ret"], "k": "entry"}
    callee = {"name": name, "def": "array::traits::" + name, "trait": fn.get("impl_trait")}
    if fn.get("impl_trait") in ("std::ops::Add", "std::ops::Sub"):
        def handler(I_, st_, fr_, e_, c_, a_):
            x, y = stdlib.deref(I_, st_, a_[0]), stdlib.deref(I_, st_, a_[1])
            f = stdlib.add_values if name == "add" else stdlib.sub_values
            return [(st_, f(I_, st_, fr_, e_, x, y), None)]
    else:
        handler = prims.TABLE.get(name)
    if handler is None:
        return None
    mut_roots = [a.place[0] for a in args if isinstance(a, VMutRef)]
    snap = {r: st.env[r] for r in mut_roots}
    n_ob = len(I.obligations)
    try:
        outs = handler(I, st, fr0, node, callee, list(args))
    except (TypeError, KeyError, NotImplementedError) as ex:
        del I.obligations[n_ob:]
        for r, v in snap.items():
            st.env[r] = v
        return {"error": f"{type(ex).__name__}: {ex}"}
    assumed = [f"{o.what}: {o.goal}" for o in I.obligations[n_ob:] if o.status == "failed"]
    del I.obligations[n_ob:]
    refs = []
    for (s2, v, c) in outs:
        refs.append({"st": s2, "ret": v, "posts": {r: s2.env[r] for r in mut_roots}})
    for r, v in snap.items():
        st.env[r] = v
    return {"refs": refs, "assumed": assumed, "mut_roots": mut_roots}


# ---------------------------------------------------------------------------------------------------------------
# comparison

def same_value(st, got, want):
    got, want = _strip(got), _strip(want)
    if isinstance(want, VSeq) and isinstance(got, VSeq):
        return terms_equal(st, got.t, want.t) or refines(st, got.t, want.t)
    if isinstance(want, VNat) and isinstance(got, VNat):
        return st.eq(got.p, want.p)
    if isinstance(want, VTup) and isinstance(got, VTup) and len(want.items) == len(got.items):
        return all(same_value(st, g, w) for g, w in zip(got.items, want.items))
    if isinstance(want, VEnum) and isinstance(got, VEnum):
        return want.variant == got.variant and len(want.payload) == len(got.payload) and \
            all(same_value(st, g, w) for g, w in zip(got.payload, want.payload))
    if isinstance(want, VUser) and isinstance(got, VUser):
        return want.key == got.key
    if isinstance(want, VUnit) and isinstance(got, VUnit):
        return True
    if isinstance(want, VRange) and isinstance(got, VRange):
        return st.eq(got.lo.p, want.lo.p) and st.eq(got.hi.p, want.hi.p)
    return False


def _strip(v):
    if isinstance(v, VRec) and set(v.f) == {"0"}:
        return _strip(v.f["0"])
    return v


def refines(st, got, want):
    """REFINE: the contract leaves a choice open; `got` is one of the admissible answers."""
    got, want = normalise(st, got), normalise(st, want)
    # scatter: positions never written hold an arbitrary element (the Vec backend uses self[0])
    if want[0] == "scatter" and got[0] == "sa" and got[1][0] == "fill" and st.eq(as_poly(got[1][2]), as_poly(want[3])) \
            and terms_equal(st, got[2], want[2]) and terms_equal(st, got[3], want[1]):
        return True
    # scatter of the empty array: there is no element to fill with; the Vec backend returns the empty array
    # (accepted deviation: the trait documentation promises no length; reported in evidence as an observation)
    if want[0] == "scatter" and got == EMPTY and st.eq(t_len(want[1]), 0):
        return True
    # scalar definitions written element-wise by the implementation: whatever the loop iterates over (the arrays
    # zipped, an index range, an enumeration), every array is read at the running position, so the arbitrary elements
    # elem(A), elem(B) are position-aligned; compare the element formula and the length
    def elementwise(t):
        if t[0] == "emap":
            return t_len(t[1]), as_poly(t[2])
        if t[0] == "lmap" and t[2][0] == "user":
            return t_len(t[1]), t[2][1]
        return None
    ew = elementwise(got)
    if ew is not None:
        n, body = ew
        if want[0] in ("add", "sub") and st.eq(n, t_len(want[1])):
            op = "+" if want[0] == "add" else "-"
            if body == ("binop", op, ("elem", want[1]), ("elem", want[2])):
                return True
            if isinstance(body, Poly):
                a_, b_ = Poly.atom(("elem", want[1])), Poly.atom(("elem", want[2]))
                if body == (a_ + b_ if op == "+" else a_ - b_):
                    return True
        if want[0] == "mulcadd" and st.eq(n, t_len(want[1])) and isinstance(body, Poly):
            a_, b_ = Poly.atom(("elem", want[1])), Poly.atom(("elem", want[3]))
            if body == a_ * as_poly(want[2]) + b_:
                return True
        if want[0] in ("quot", "rem") and st.eq(n, t_len(want[1])) and isinstance(body, Poly):
            op = "/" if want[0] == "quot" else "%"
            if body == Poly.atom((op, Poly.atom(("elem", want[1])), as_poly(want[2]))):
                return True
        if want[0] == "shift" and st.eq(n, t_len(want[2])) and isinstance(body, Poly):
            if body == Poly.atom(("elem", want[2])) + as_poly(want[1]):
                return True
        if want[0] == "gather" and st.eq(n, t_len(want[2])):
            g = ("elem", ("gather", want[1], want[2]))
            if body == g or (isinstance(body, Poly) and body == Poly.atom(g)):
                return True
    if want[0] == "repeat" and got[0] == "flat" and st.eq(t_len(got[1]), t_len(want[1])):
        x = got[2]
        if x[0] == "fill" and as_poly(x[2]) == Poly.atom(("elem", want[1])):
            v = as_poly(x[1])
            if v == Poly.atom(("elem", want[2])) or v == Poly.atom(("lbl", ("elem", want[2]))):
                return True
    if want[0] == "cumsum" and got[0] == "concat":
        # consecutive pieces of the prefix sums 0, x0, x0+x1, ..., sum: each piece is a window [lo, hi) of cumsum(X)
        X = want[1]
        n = t_len(X)
        pos = Poly.const(0)
        ok = True
        for part in got[1:]:
            if part[0] == "slice" and part[1] == ("cumsum", X) and st.eq(as_poly(part[2]), pos):
                pos = as_poly(part[3])
            elif part[0] == "fill" and st.eq(as_poly(part[2]), 1) and st.eq(pos, 0) and st.eq(as_poly(part[1]), 0):
                pos = Poly.const(1)
            elif part[0] == "fill" and st.eq(as_poly(part[2]), 1) and st.eq(pos, n) and st.eq(as_poly(part[1]), t_sum(X)):
                pos = n + 1
            else:
                ok = False
                break
        if ok and st.eq(pos, n + 1):
            return True
    if want[0] == "zero" and got[0] == "sel":
        X = want[1]
        M = got[2]
        if st.eq(t_len(got[1]), t_len(X)) and got[1][0] == "arange" and st.eq(got[1][1], 0) and M[0] == "mask" \
                and M[1] in (("enum", X), X) and M[2] == ("cmp", "eq", Poly.atom(("elem", X))):
            return True
    return False


def show(v):
    v = _strip(v)
    if isinstance(v, VSeq):
        return show_term(v.t)[:260]
    return repr(v)[:260]
