// ohx — rustc_private driver that exports the type-checked program (typed HIR with resolved
// callees, struct/impl facts, MIR call/assert edges) of the crate being compiled as JSON.
//
// Used as RUSTC_WORKSPACE_WRAPPER: argv = [ohx, <rustc>, rustc-args...].
// Facts are written (one write per process) to $OHX_OUT/<crate>.<cfg>.json for the crate
// whose name equals $OHX_CRATE (default: open_hypergraphs); other crates compile unchanged.
#![feature(rustc_private)]
#![allow(clippy::all)]

extern crate rustc_abi;
extern crate rustc_ast;
extern crate rustc_driver;
extern crate rustc_hir;
extern crate rustc_interface;
extern crate rustc_middle;
extern crate rustc_session;
extern crate rustc_span;

use rustc_driver::Compilation;
use rustc_hir as hir;
use rustc_hir::def::{DefKind, Res};
use rustc_hir::def_id::{DefId, LocalDefId};
use rustc_interface::interface;
use rustc_middle::mir;
use rustc_middle::ty::{self, Ty, TyCtxt, TypeckResults};
use rustc_span::Span;
use std::collections::HashMap;
use std::fmt::Write as _;

// ---------------------------------------------------------------------------------------------
// Minimal JSON value
#[derive(Clone)]
enum J {
    Null,
    B(bool),
    I(i64),
    S(String),
    A(Vec<J>),
    O(Vec<(&'static str, J)>),
}

fn esc(s: &str, out: &mut String) {
    out.push('"');
    for c in s.chars() {
        match c {
            '"' => out.push_str("\\\""),
            '\\' => out.push_str("\\\\"),
            '\n' => out.push_str("\\n"),
            '\r' => out.push_str("\\r"),
            '\t' => out.push_str("\\t"),
            c if (c as u32) < 0x20 => {
                let _ = write!(out, "\\u{:04x}", c as u32);
            }
            c => out.push(c),
        }
    }
    out.push('"');
}

impl J {
    fn write(&self, out: &mut String) {
        match self {
            J::Null => out.push_str("null"),
            J::B(b) => out.push_str(if *b { "true" } else { "false" }),
            J::I(i) => {
                let _ = write!(out, "{}", i);
            }
            J::S(s) => esc(s, out),
            J::A(v) => {
                out.push('[');
                for (i, x) in v.iter().enumerate() {
                    if i > 0 {
                        out.push(',');
                    }
                    x.write(out);
                }
                out.push(']');
            }
            J::O(v) => {
                out.push('{');
                let mut first = true;
                for (k, x) in v.iter() {
                    if let J::Null = x {
                        continue;
                    }
                    if !first {
                        out.push(',');
                    }
                    first = false;
                    esc(k, out);
                    out.push(':');
                    x.write(out);
                }
                out.push('}');
            }
        }
    }
}

fn s(x: impl Into<String>) -> J {
    J::S(x.into())
}

// ---------------------------------------------------------------------------------------------

struct Cx<'tcx> {
    tcx: TyCtxt<'tcx>,
    types: Vec<J>,
    type_ix: HashMap<Ty<'tcx>, usize>,
    unsupported: Vec<String>,
}

impl<'tcx> Cx<'tcx> {
    fn sp(&self, sp: Span) -> J {
        let sm = self.tcx.sess.source_map();
        // Use the call-site span for reporting when the node comes from a macro expansion.
        let sp = sp.source_callsite();
        let lo = sm.lookup_char_pos(sp.lo());
        let name = match &lo.file.name {
            rustc_span::FileName::Real(r) => match r.local_path() {
                Some(p) => p.display().to_string(),
                None => format!("{:?}", r),
            },
            other => format!("{:?}", other),
        };
        s(format!("{}:{}:{}", name, lo.line, lo.col.0 + 1))
    }

    fn path(&self, did: DefId) -> String {
        self.tcx.def_path_str(did)
    }

    fn ty(&mut self, t: Ty<'tcx>) -> J {
        J::I(self.ty_ix(t) as i64)
    }

    fn ty_ix(&mut self, t: Ty<'tcx>) -> usize {
        if let Some(i) = self.type_ix.get(&t) {
            return *i;
        }
        // reserve slot first (recursive types cannot occur structurally, but keep order stable)
        let ix = self.types.len();
        self.types.push(J::Null);
        self.type_ix.insert(t, ix);
        let mut o: Vec<(&'static str, J)> = vec![("s", s(t.to_string()))];
        match t.kind() {
            ty::Bool => o.push(("k", s("bool"))),
            ty::Char => o.push(("k", s("char"))),
            ty::Int(_) => o.push(("k", s("int"))),
            ty::Uint(u) => {
                o.push(("k", s("uint")));
                o.push(("name", s(u.name_str())));
            }
            ty::Float(_) => o.push(("k", s("float"))),
            ty::Str => o.push(("k", s("str"))),
            ty::Never => o.push(("k", s("never"))),
            ty::Adt(adt, args) => {
                o.push(("k", s("adt")));
                o.push(("path", s(self.path(adt.did()))));
                let a = self.gargs(args);
                o.push(("args", a));
            }
            ty::Ref(_, inner, m) => {
                o.push(("k", s("ref")));
                o.push(("mut", J::B(m.is_mut())));
                let i = self.ty(*inner);
                o.push(("inner", i));
            }
            ty::RawPtr(inner, m) => {
                o.push(("k", s("ptr")));
                o.push(("mut", J::B(m.is_mut())));
                let i = self.ty(*inner);
                o.push(("inner", i));
            }
            ty::Slice(inner) => {
                o.push(("k", s("slice")));
                let i = self.ty(*inner);
                o.push(("inner", i));
            }
            ty::Array(inner, _) => {
                o.push(("k", s("array")));
                let i = self.ty(*inner);
                o.push(("inner", i));
            }
            ty::Tuple(ts) => {
                o.push(("k", s("tuple")));
                let v: Vec<J> = ts.iter().map(|x| self.ty(x)).collect();
                o.push(("items", J::A(v)));
            }
            ty::Param(p) => {
                o.push(("k", s("param")));
                o.push(("name", s(p.name.to_string())));
            }
            ty::Alias(at) => {
                o.push(("k", s("alias")));
                o.push(("path", s(self.path(at.kind.def_id()))));
                let a = self.gargs(at.args);
                o.push(("args", a));
            }
            ty::FnDef(did, args) => {
                o.push(("k", s("fndef")));
                o.push(("path", s(self.path(*did))));
                let a = self.gargs(args);
                o.push(("args", a));
            }
            ty::Closure(did, _) => {
                o.push(("k", s("closure")));
                o.push(("path", s(self.path(*did))));
            }
            ty::FnPtr(..) => o.push(("k", s("fnptr"))),
            ty::Dynamic(..) => o.push(("k", s("dyn"))),
            _ => o.push(("k", s("other"))),
        }
        self.types[ix] = J::O(o);
        ix
    }

    fn gargs(&mut self, args: ty::GenericArgsRef<'tcx>) -> J {
        let mut v = vec![];
        for a in args.iter() {
            if let Some(t) = a.as_type() {
                v.push(self.ty(t));
            }
        }
        J::A(v)
    }

    fn mac(&self, sp: Span, parent: Option<Span>) -> J {
        if !sp.from_expansion() {
            return J::Null;
        }
        if let Some(p) = parent {
            if p.ctxt() == sp.ctxt() {
                return J::Null;
            }
        }
        // Walk outwards to the outermost expansion that is still inside the parent's context.
        let mut names = vec![];
        let mut cur = sp;
        let mut guard = 0;
        while cur.from_expansion() && guard < 16 {
            guard += 1;
            let data = cur.ctxt().outer_expn_data();
            let n = match data.kind {
                rustc_span::ExpnKind::Macro(_, name) => name.to_string(),
                rustc_span::ExpnKind::Desugaring(d) => format!("desugar:{:?}", d),
                rustc_span::ExpnKind::AstPass(_) => "astpass".to_string(),
                rustc_span::ExpnKind::Root => "root".to_string(),
            };
            names.push(J::S(n));
            if let Some(p) = parent {
                if data.call_site.ctxt() == p.ctxt() {
                    break;
                }
            }
            cur = data.call_site;
        }
        J::A(names)
    }

    // Resolved callee of a call / method call / overloaded operator.
    fn callee(
        &mut self,
        owner: LocalDefId,
        did: DefId,
        args: ty::GenericArgsRef<'tcx>,
    ) -> J {
        let tcx = self.tcx;
        let mut o: Vec<(&'static str, J)> = vec![("def", s(self.path(did)))];
        o.push(("name", s(tcx.item_name(did).to_string())));
        o.push(("local", J::B(did.is_local())));
        if let Some(tr) = tcx.trait_of_assoc(did) {
            o.push(("trait", s(self.path(tr))));
        }
        if let Some(imp) = tcx.impl_of_assoc(did) {
            let st = tcx.type_of(imp).instantiate_identity().skip_norm_wip();
            o.push(("impl_self", s(st.to_string())));
        }
        let ga = self.gargs(args);
        o.push(("args", ga));
        // self type (first generic arg) for trait methods
        if tcx.trait_of_assoc(did).is_some() {
            if let Some(t0) = args.types().next() {
                let j = self.ty(t0);
                o.push(("self_ty", j));
            }
        }
        let env = ty::TypingEnv::post_analysis(tcx, owner);
        // has_infer / escaping args cannot be resolved
        let resolvable = !args.iter().any(|a| {
            use rustc_middle::ty::TypeVisitableExt;
            a.has_infer() || a.has_escaping_bound_vars()
        });
        if resolvable {
            if let Ok(Some(inst)) = ty::Instance::try_resolve(tcx, env, did, args) {
                let rd = inst.def_id();
                if rd != did {
                    o.push(("res", s(self.path(rd))));
                    o.push(("res_local", J::B(rd.is_local())));
                    if let Some(imp) = tcx.impl_of_assoc(rd) {
                        let st = tcx.type_of(imp).instantiate_identity().skip_norm_wip();
                        o.push(("res_impl_self", s(st.to_string())));
                    }
                    let ra = self.gargs(inst.args);
                    o.push(("res_args", ra));
                }
                let kind = match inst.def {
                    ty::InstanceKind::Item(_) => "item",
                    ty::InstanceKind::Virtual(..) => "virtual",
                    ty::InstanceKind::ClosureOnceShim { .. } => "closure_once",
                    ty::InstanceKind::FnPtrShim(..) => "fnptr_shim",
                    ty::InstanceKind::CloneShim(..) => "clone_shim",
                    ty::InstanceKind::Intrinsic(..) => "intrinsic",
                    _ => "other",
                };
                o.push(("inst", s(kind)));
            }
        }
        // does the (resolved or declared) function have a body in this crate?
        J::O(o)
    }

    fn res(&mut self, tr: &TypeckResults<'tcx>, owner: LocalDefId, qp: &hir::QPath<'tcx>, hid: hir::HirId) -> J {
        let res = tr.qpath_res(qp, hid);
        match res {
            Res::Local(h) => J::O(vec![
                ("k", s("local")),
                ("id", J::I(h.local_id.as_u32() as i64)),
                ("name", s(self.tcx.hir_name(h).to_string())),
            ]),
            Res::Def(dk, did) => {
                let mut o = vec![
                    ("k", s("def")),
                    ("dk", s(format!("{:?}", dk))),
                    ("path", s(self.path(did))),
                ];
                match dk {
                    DefKind::Fn | DefKind::AssocFn => {
                        let args = tr.node_args(hid);
                        let c = self.callee(owner, did, args);
                        o.push(("callee", c));
                    }
                    DefKind::Ctor(..) => {
                        let parent = self.tcx.parent(did);
                        o.push(("ctor_of", s(self.path(parent))));
                        o.push(("name", s(self.tcx.item_name(parent).to_string())));
                    }
                    _ => {}
                }
                J::O(o)
            }
            Res::SelfCtor(did) => J::O(vec![("k", s("selfctor")), ("path", s(self.path(did)))]),
            other => J::O(vec![("k", s("other")), ("s", s(format!("{:?}", other)))]),
        }
    }

    fn pat(&mut self, tr: &TypeckResults<'tcx>, owner: LocalDefId, p: &hir::Pat<'tcx>) -> J {
        let mut o: Vec<(&'static str, J)> = vec![];
        let t = tr.pat_ty(p);
        let tj = self.ty(t);
        match &p.kind {
            hir::PatKind::Wild => o.push(("k", s("wild"))),
            hir::PatKind::Binding(mode, hid, ident, sub) => {
                o.push(("k", s("bind")));
                o.push(("id", J::I(hid.local_id.as_u32() as i64)));
                o.push(("name", s(ident.name.to_string())));
                o.push(("by_ref", J::B(matches!(mode.0, hir::ByRef::Yes(..)))));
                o.push(("mut", J::B(mode.1.is_mut())));
                if let Some(sp) = sub {
                    let j = self.pat(tr, owner, sp);
                    o.push(("sub", j));
                }
            }
            hir::PatKind::Struct(qp, fields, _) => {
                o.push(("k", s("struct")));
                let r = self.res(tr, owner, qp, p.hir_id);
                o.push(("res", r));
                let mut fs = vec![];
                for f in fields.iter() {
                    let pj = self.pat(tr, owner, f.pat);
                    fs.push(J::O(vec![("name", s(f.ident.name.to_string())), ("pat", pj)]));
                }
                o.push(("fields", J::A(fs)));
            }
            hir::PatKind::TupleStruct(qp, pats, dd) => {
                o.push(("k", s("tuple_struct")));
                let r = self.res(tr, owner, qp, p.hir_id);
                o.push(("res", r));
                let ps: Vec<J> = pats.iter().map(|x| self.pat(tr, owner, x)).collect();
                o.push(("pats", J::A(ps)));
                if let Some(i) = dd.as_opt_usize() {
                    o.push(("dd", J::I(i as i64)));
                }
            }
            hir::PatKind::Tuple(pats, dd) => {
                o.push(("k", s("tuple")));
                let ps: Vec<J> = pats.iter().map(|x| self.pat(tr, owner, x)).collect();
                o.push(("pats", J::A(ps)));
                if let Some(i) = dd.as_opt_usize() {
                    o.push(("dd", J::I(i as i64)));
                }
            }
            hir::PatKind::Ref(inner, _, m) => {
                o.push(("k", s("ref")));
                o.push(("mut", J::B(m.is_mut())));
                let j = self.pat(tr, owner, inner);
                o.push(("pat", j));
            }
            hir::PatKind::Or(pats) => {
                o.push(("k", s("or")));
                let ps: Vec<J> = pats.iter().map(|x| self.pat(tr, owner, x)).collect();
                o.push(("pats", J::A(ps)));
            }
            hir::PatKind::Expr(pe) => {
                o.push(("k", s("lit")));
                match &pe.kind {
                    hir::PatExprKind::Lit { lit, negated } => {
                        o.push(("v", s(format!("{}{}", if *negated { "-" } else { "" }, lit_str(lit)))));
                    }
                    hir::PatExprKind::Path(qp) => {
                        let r = self.res(tr, owner, qp, pe.hir_id);
                        o.push(("res", r));
                    }
                    #[allow(unreachable_patterns)]
                    _ => {
                        o.push(("v", s("?")));
                    }
                }
            }
            hir::PatKind::Slice(before, mid, after) => {
                o.push(("k", s("slice")));
                let b: Vec<J> = before.iter().map(|x| self.pat(tr, owner, x)).collect();
                o.push(("before", J::A(b)));
                if let Some(m) = mid {
                    let j = self.pat(tr, owner, m);
                    o.push(("mid", j));
                }
                let a: Vec<J> = after.iter().map(|x| self.pat(tr, owner, x)).collect();
                o.push(("after", J::A(a)));
            }
            other => {
                let k = format!("{:?}", std::mem::discriminant(other));
                self.unsupported.push(format!("pat {}", k));
                o.push(("k", s("unsupported")));
            }
        }
        o.push(("ty", tj));
        J::O(o)
    }

    fn block(&mut self, tr: &TypeckResults<'tcx>, owner: LocalDefId, b: &hir::Block<'tcx>, parent_sp: Span) -> (J, J) {
        let mut stmts = vec![];
        for st in b.stmts.iter() {
            match &st.kind {
                hir::StmtKind::Let(l) => {
                    let mut o: Vec<(&'static str, J)> = vec![("k", s("let"))];
                    let pj = self.pat(tr, owner, l.pat);
                    o.push(("pat", pj));
                    if let Some(i) = l.init {
                        let ij = self.expr(tr, owner, i, Some(parent_sp));
                        o.push(("init", ij));
                    }
                    if let Some(e) = l.els {
                        let (st2, tail) = self.block(tr, owner, e, parent_sp);
                        o.push(("els", J::O(vec![("stmts", st2), ("tail", tail)])));
                    }
                    let spj = self.sp(st.span);
                    o.push(("sp", spj));
                    stmts.push(J::O(o));
                }
                hir::StmtKind::Expr(e) => {
                    let ej = self.expr(tr, owner, e, Some(parent_sp));
                    stmts.push(J::O(vec![("k", s("expr")), ("e", ej)]));
                }
                hir::StmtKind::Semi(e) => {
                    let ej = self.expr(tr, owner, e, Some(parent_sp));
                    stmts.push(J::O(vec![("k", s("semi")), ("e", ej)]));
                }
                hir::StmtKind::Item(_) => {
                    stmts.push(J::O(vec![("k", s("item"))]));
                }
            }
        }
        let tail = match b.expr {
            Some(e) => self.expr(tr, owner, e, Some(parent_sp)),
            None => J::Null,
        };
        (J::A(stmts), tail)
    }

    fn expr(&mut self, tr: &TypeckResults<'tcx>, owner: LocalDefId, e: &hir::Expr<'tcx>, parent_sp: Option<Span>) -> J {
        // transparent wrappers
        if let hir::ExprKind::DropTemps(inner) = &e.kind {
            return self.expr(tr, owner, inner, parent_sp);
        }
        let mut o: Vec<(&'static str, J)> = vec![];
        let t = tr.expr_ty(e);
        let tj = self.ty(t);
        let sp = e.span;
        match &e.kind {
            hir::ExprKind::Lit(l) => {
                o.push(("k", s("lit")));
                o.push(("v", s(lit_str(l))));
            }
            hir::ExprKind::Path(qp) => {
                o.push(("k", s("path")));
                let r = self.res(tr, owner, qp, e.hir_id);
                o.push(("res", r));
            }
            hir::ExprKind::Call(f, args) => {
                let fty = tr.expr_ty(f);
                let mut is_ctor = false;
                if let ty::FnDef(did, ga) = fty.kind() {
                    let dk = self.tcx.def_kind(*did);
                    if let DefKind::Ctor(..) = dk {
                        is_ctor = true;
                        o.push(("k", s("ctor")));
                        let parent = self.tcx.parent(*did);
                        o.push(("path", s(self.path(parent))));
                        o.push(("name", s(self.tcx.item_name(parent).to_string())));
                    } else {
                        o.push(("k", s("call")));
                        let c = self.callee(owner, *did, ga);
                        o.push(("callee", c));
                    }
                } else {
                    o.push(("k", s("call_value")));
                    let fj = self.expr(tr, owner, f, Some(sp));
                    o.push(("f", fj));
                }
                let _ = is_ctor;
                let aj: Vec<J> = args.iter().map(|a| self.expr(tr, owner, a, Some(sp))).collect();
                o.push(("args", J::A(aj)));
            }
            hir::ExprKind::MethodCall(seg, recv, args, _) => {
                o.push(("k", s("call")));
                o.push(("method", s(seg.ident.name.to_string())));
                if let Some(did) = tr.type_dependent_def_id(e.hir_id) {
                    let ga = tr.node_args(e.hir_id);
                    let c = self.callee(owner, did, ga);
                    o.push(("callee", c));
                }
                let mut aj = vec![self.expr(tr, owner, recv, Some(sp))];
                for a in args.iter() {
                    aj.push(self.expr(tr, owner, a, Some(sp)));
                }
                o.push(("args", J::A(aj)));
            }
            hir::ExprKind::Binary(op, l, r) => {
                o.push(("k", s("binary")));
                o.push(("op", s(op.node.as_str())));
                if let Some(did) = tr.type_dependent_def_id(e.hir_id) {
                    let ga = tr.node_args(e.hir_id);
                    let c = self.callee(owner, did, ga);
                    o.push(("callee", c));
                }
                let lj = self.expr(tr, owner, l, Some(sp));
                let rj = self.expr(tr, owner, r, Some(sp));
                o.push(("args", J::A(vec![lj, rj])));
            }
            hir::ExprKind::Unary(op, x) => {
                o.push(("k", s("unary")));
                o.push(("op", s(op.as_str())));
                if let Some(did) = tr.type_dependent_def_id(e.hir_id) {
                    let ga = tr.node_args(e.hir_id);
                    let c = self.callee(owner, did, ga);
                    o.push(("callee", c));
                }
                let xj = self.expr(tr, owner, x, Some(sp));
                o.push(("args", J::A(vec![xj])));
            }
            hir::ExprKind::AssignOp(op, l, r) => {
                o.push(("k", s("assign_op")));
                o.push(("op", s(op.node.as_str())));
                if let Some(did) = tr.type_dependent_def_id(e.hir_id) {
                    let ga = tr.node_args(e.hir_id);
                    let c = self.callee(owner, did, ga);
                    o.push(("callee", c));
                }
                let lj = self.expr(tr, owner, l, Some(sp));
                let rj = self.expr(tr, owner, r, Some(sp));
                o.push(("args", J::A(vec![lj, rj])));
            }
            hir::ExprKind::Assign(l, r, _) => {
                o.push(("k", s("assign")));
                let lj = self.expr(tr, owner, l, Some(sp));
                let rj = self.expr(tr, owner, r, Some(sp));
                o.push(("args", J::A(vec![lj, rj])));
            }
            hir::ExprKind::Index(b, i, _) => {
                o.push(("k", s("index")));
                if let Some(did) = tr.type_dependent_def_id(e.hir_id) {
                    let ga = tr.node_args(e.hir_id);
                    let c = self.callee(owner, did, ga);
                    o.push(("callee", c));
                }
                let bj = self.expr(tr, owner, b, Some(sp));
                let ij = self.expr(tr, owner, i, Some(sp));
                o.push(("args", J::A(vec![bj, ij])));
            }
            hir::ExprKind::Field(b, id) => {
                o.push(("k", s("field")));
                o.push(("name", s(id.name.to_string())));
                let bj = self.expr(tr, owner, b, Some(sp));
                o.push(("e", bj));
            }
            hir::ExprKind::Tup(xs) => {
                o.push(("k", s("tuple")));
                let v: Vec<J> = xs.iter().map(|x| self.expr(tr, owner, x, Some(sp))).collect();
                o.push(("args", J::A(v)));
            }
            hir::ExprKind::Array(xs) => {
                o.push(("k", s("array")));
                let v: Vec<J> = xs.iter().map(|x| self.expr(tr, owner, x, Some(sp))).collect();
                o.push(("args", J::A(v)));
            }
            hir::ExprKind::Repeat(x, _) => {
                o.push(("k", s("repeat")));
                let xj = self.expr(tr, owner, x, Some(sp));
                o.push(("e", xj));
            }
            hir::ExprKind::Cast(x, _) => {
                o.push(("k", s("cast")));
                let xj = self.expr(tr, owner, x, Some(sp));
                o.push(("e", xj));
            }
            hir::ExprKind::Type(x, _) => {
                return self.expr(tr, owner, x, parent_sp);
            }
            hir::ExprKind::AddrOf(_, m, x) => {
                o.push(("k", s("ref")));
                o.push(("mut", J::B(m.is_mut())));
                let xj = self.expr(tr, owner, x, Some(sp));
                o.push(("e", xj));
            }
            hir::ExprKind::Let(l) => {
                o.push(("k", s("let")));
                let pj = self.pat(tr, owner, l.pat);
                o.push(("pat", pj));
                let ij = self.expr(tr, owner, l.init, Some(sp));
                o.push(("init", ij));
            }
            hir::ExprKind::If(c, a, b) => {
                o.push(("k", s("if")));
                let cj = self.expr(tr, owner, c, Some(sp));
                o.push(("cond", cj));
                let aj = self.expr(tr, owner, a, Some(sp));
                o.push(("then", aj));
                if let Some(b) = b {
                    let bj = self.expr(tr, owner, b, Some(sp));
                    o.push(("else", bj));
                }
            }
            hir::ExprKind::Loop(b, _, src, _) => {
                o.push(("k", s("loop")));
                o.push(("src", s(format!("{:?}", src))));
                let (st, tail) = self.block(tr, owner, b, sp);
                o.push(("stmts", st));
                o.push(("tail", tail));
            }
            hir::ExprKind::Match(scrut, arms, src) => {
                o.push(("k", s("match")));
                o.push(("src", s(format!("{:?}", src))));
                let sj = self.expr(tr, owner, scrut, Some(sp));
                o.push(("scrut", sj));
                let mut av = vec![];
                for a in arms.iter() {
                    let pj = self.pat(tr, owner, a.pat);
                    let mut ao = vec![("pat", pj)];
                    if let Some(g) = a.guard {
                        let gj = self.expr(tr, owner, g, Some(sp));
                        ao.push(("guard", gj));
                    }
                    let bj = self.expr(tr, owner, a.body, Some(sp));
                    ao.push(("body", bj));
                    av.push(J::O(ao));
                }
                o.push(("arms", J::A(av)));
            }
            hir::ExprKind::Closure(c) => {
                o.push(("k", s("closure")));
                let body = self.tcx.hir_body(c.body);
                let ps: Vec<J> = body.params.iter().map(|p| self.pat(tr, owner, p.pat)).collect();
                o.push(("params", J::A(ps)));
                let bj = self.expr(tr, owner, body.value, Some(sp));
                o.push(("body", bj));
                o.push(("def", s(self.path(c.def_id.to_def_id()))));
                o.push(("move", J::B(matches!(c.capture_clause, hir::CaptureBy::Value { .. }))));
            }
            hir::ExprKind::Block(b, _) => {
                o.push(("k", s("block")));
                let (st, tail) = self.block(tr, owner, b, sp);
                o.push(("stmts", st));
                o.push(("tail", tail));
            }
            hir::ExprKind::Break(dest, x) => {
                o.push(("k", s("break")));
                if let Some(l) = dest.label {
                    o.push(("label", s(l.ident.name.to_string())));
                }
                if let Some(x) = x {
                    let xj = self.expr(tr, owner, x, Some(sp));
                    o.push(("e", xj));
                }
            }
            hir::ExprKind::Continue(dest) => {
                o.push(("k", s("continue")));
                if let Some(l) = dest.label {
                    o.push(("label", s(l.ident.name.to_string())));
                }
            }
            hir::ExprKind::Ret(x) => {
                o.push(("k", s("ret")));
                if let Some(x) = x {
                    let xj = self.expr(tr, owner, x, Some(sp));
                    o.push(("e", xj));
                }
            }
            hir::ExprKind::Struct(qp, fields, tail) => {
                o.push(("k", s("struct")));
                let r = self.res(tr, owner, qp, e.hir_id);
                o.push(("res", r));
                if let ty::Adt(adt, _) = t.kind() {
                    o.push(("path", s(self.path(adt.did()))));
                    o.push(("name", s(self.tcx.item_name(adt.did()).to_string())));
                }
                let mut fs = vec![];
                for f in fields.iter() {
                    let ej = self.expr(tr, owner, f.expr, Some(sp));
                    fs.push(J::O(vec![("name", s(f.ident.name.to_string())), ("e", ej)]));
                }
                o.push(("fields", J::A(fs)));
                if let hir::StructTailExpr::Base(b) = tail {
                    let bj = self.expr(tr, owner, b, Some(sp));
                    o.push(("base", bj));
                }
            }
            hir::ExprKind::Use(x, _) => {
                return self.expr(tr, owner, x, parent_sp);
            }
            other => {
                let k = format!("{:?}", std::mem::discriminant(other));
                self.unsupported.push(format!("expr {} at {:?}", k, sp));
                o.push(("k", s("unsupported")));
            }
        }
        o.push(("ty", tj));
        let spj = self.sp(sp);
        o.push(("sp", spj));
        let m = self.mac(sp, parent_sp);
        o.push(("mac", m));
        let adjs = tr.expr_adjustments(e);
        if !adjs.is_empty() {
            let mut v = vec![];
            for a in adjs {
                let k = match &a.kind {
                    ty::adjustment::Adjust::NeverToAny => "never".to_string(),
                    ty::adjustment::Adjust::Deref(d) => {
                        if format!("{:?}", d).contains("Overloaded") || format!("{:?}", d).starts_with("Some") {
                            "deref_overloaded".to_string()
                        } else {
                            "deref".to_string()
                        }
                    }
                    ty::adjustment::Adjust::Borrow(b) => {
                        let st = format!("{:?}", b);
                        if st.contains("Mut") && !st.contains("Not") {
                            "borrow_mut".to_string()
                        } else {
                            "borrow".to_string()
                        }
                    }
                    ty::adjustment::Adjust::Pointer(p) => format!("pointer:{:?}", p),
                    #[allow(unreachable_patterns)]
                    _ => "other".to_string(),
                };
                v.push(J::S(k));
            }
            o.push(("adj", J::A(v)));
            let at = tr.expr_ty_adjusted(e);
            let atj = self.ty(at);
            o.push(("aty", atj));
        }
        J::O(o)
    }
}

fn lit_str(l: &hir::Lit) -> String {
    use rustc_ast::LitKind;
    match &l.node {
        LitKind::Int(v, _) => format!("{}", v.get()),
        LitKind::Bool(b) => format!("{}", b),
        LitKind::Str(sym, _) => format!("\"{}\"", sym),
        LitKind::Char(c) => format!("'{}'", c),
        other => format!("{:?}", other),
    }
}

fn vis_str(tcx: TyCtxt<'_>, did: DefId) -> &'static str {
    match tcx.def_kind(did) {
        DefKind::Fn | DefKind::AssocFn | DefKind::Struct | DefKind::Enum | DefKind::Trait | DefKind::Field => {}
        _ => return "n/a",
    }
    match tcx.visibility(did) {
        ty::Visibility::Public => "pub",
        ty::Visibility::Restricted(m) => {
            if m.is_crate_root() {
                "crate"
            } else {
                "priv"
            }
        }
    }
}

struct Export;

impl rustc_driver::Callbacks for Export {
    fn config(&mut self, _config: &mut interface::Config) {}

    fn after_analysis<'tcx>(&mut self, _compiler: &interface::Compiler, tcx: TyCtxt<'tcx>) -> Compilation {
        let crate_name = tcx.crate_name(rustc_hir::def_id::LOCAL_CRATE).to_string();
        let want = std::env::var("OHX_CRATE").unwrap_or_else(|_| "open_hypergraphs".to_string());
        if crate_name != want {
            return Compilation::Continue;
        }
        // only the library target (not tests/examples which share the crate name? they do not)
        let out_dir = match std::env::var("OHX_OUT") {
            Ok(d) => d,
            Err(_) => return Compilation::Continue,
        };
        let cfg = std::env::var("OHX_CFG").unwrap_or_else(|_| "default".to_string());

        let mut cx = Cx { tcx, types: vec![], type_ix: HashMap::new(), unsupported: vec![] };

        // ---- items -------------------------------------------------------------------------
        let mut structs = vec![];
        let mut enums = vec![];
        let mut impls = vec![];
        let mut traits = vec![];
        for id in tcx.hir_free_items() {
            let item = tcx.hir_item(id);
            let did = item.owner_id.to_def_id();
            match &item.kind {
                hir::ItemKind::Struct(..) => {
                    let adt = tcx.adt_def(did);
                    let v = adt.non_enum_variant();
                    let mut fields = vec![];
                    for f in v.fields.iter() {
                        let ft = tcx.type_of(f.did).instantiate_identity().skip_norm_wip();
                        let tj = cx.ty(ft);
                        fields.push(J::O(vec![
                            ("name", s(f.name.to_string())),
                            ("ty", tj),
                            ("vis", s(vis_str(tcx, f.did))),
                        ]));
                    }
                    let attrs: Vec<J> = tcx
                        .hir_attrs(item.hir_id())
                        .iter()
                        .map(|a| s(format!("{:?}", a).chars().take(400).collect::<String>()))
                        .collect();
                    let spj = cx.sp(item.span);
                    structs.push(J::O(vec![
                        ("path", s(cx.path(did))),
                        ("name", s(tcx.item_name(did).to_string())),
                        ("vis", s(vis_str(tcx, did))),
                        ("fields", J::A(fields)),
                        ("non_exhaustive", J::B(adt.is_variant_list_non_exhaustive() || v.is_field_list_non_exhaustive())),
                        ("generics", J::A(tcx.generics_of(did).own_params.iter().map(|p| s(p.name.to_string())).collect())),
                        ("attrs", J::A(attrs)),
                        ("sp", spj),
                    ]));
                }
                hir::ItemKind::Enum(..) => {
                    let adt = tcx.adt_def(did);
                    let mut vs = vec![];
                    for v in adt.variants().iter() {
                        let mut fields = vec![];
                        for f in v.fields.iter() {
                            let ft = tcx.type_of(f.did).instantiate_identity().skip_norm_wip();
                            let tj = cx.ty(ft);
                            fields.push(J::O(vec![("name", s(f.name.to_string())), ("ty", tj)]));
                        }
                        vs.push(J::O(vec![("name", s(v.name.to_string())), ("fields", J::A(fields))]));
                    }
                    let spj = cx.sp(item.span);
                    enums.push(J::O(vec![
                        ("path", s(cx.path(did))),
                        ("name", s(tcx.item_name(did).to_string())),
                        ("vis", s(vis_str(tcx, did))),
                        ("variants", J::A(vs)),
                        ("sp", spj),
                    ]));
                }
                hir::ItemKind::Trait { .. } => {
                    let mut items = vec![];
                    for ai in tcx.associated_items(did).in_definition_order() {
                        items.push(J::O(vec![
                            ("name", s(ai.opt_name().map(|n| n.to_string()).unwrap_or_default())),
                            ("path", s(cx.path(ai.def_id))),
                            ("kind", s(format!("{:?}", ai.kind).chars().take(40).collect::<String>())),
                            ("has_default", J::B(ai.defaultness(tcx).has_value())),
                        ]));
                    }
                    let spj = cx.sp(item.span);
                    traits.push(J::O(vec![
                        ("path", s(cx.path(did))),
                        ("vis", s(vis_str(tcx, did))),
                        ("items", J::A(items)),
                        ("sp", spj),
                    ]));
                }
                hir::ItemKind::Impl(imp) => {
                    let st = tcx.type_of(did).instantiate_identity().skip_norm_wip();
                    let stj = cx.ty(st);
                    let mut o = vec![("self_ty", stj), ("self_s", s(st.to_string()))];
                    if let Some(trf) = tcx.impl_opt_trait_ref(did) {
                        let trf = trf.instantiate_identity().skip_norm_wip();
                        o.push(("trait", s(cx.path(trf.def_id))));
                        o.push(("trait_s", s(trf.to_string())));
                    }
                    let mut items = vec![];
                    for it in imp.items.iter() {
                        items.push(s(cx.path(it.owner_id.to_def_id())));
                    }
                    o.push(("items", J::A(items)));
                    o.push(("generics", J::A(tcx.generics_of(did).own_params.iter().map(|p| s(p.name.to_string())).collect())));
                    let preds: Vec<J> = tcx
                        .predicates_of(did)
                        .predicates
                        .iter()
                        .map(|(p, _)| s(p.to_string()))
                        .collect();
                    o.push(("where", J::A(preds)));
                    let m = cx.mac(item.span, None);
                    o.push(("mac", m));
                    let spj = cx.sp(item.span);
                    o.push(("sp", spj));
                    impls.push(J::O(o));
                }
                _ => {}
            }
        }

        // ---- function bodies ---------------------------------------------------------------
        let mut fns = vec![];
        let mut n_owners = 0usize;
        let mut n_closures = 0usize;
        for def in tcx.hir_body_owners() {
            n_owners += 1;
            let did = def.to_def_id();
            let dk = tcx.def_kind(did);
            match dk {
                DefKind::Closure => {
                    n_closures += 1;
                    continue;
                }
                DefKind::Fn | DefKind::AssocFn => {}
                _ => continue,
            }
            let tr = tcx.typeck(def);
            let body = tcx.hir_body_owned_by(def);
            let sig = tcx.fn_sig(did).instantiate_identity().skip_norm_wip().skip_binder();
            let mut params = vec![];
            for (i, p) in body.params.iter().enumerate() {
                let pj = cx.pat(tr, def, p.pat);
                let tj = match sig.inputs().get(i) {
                    Some(t) => cx.ty(*t),
                    None => J::Null,
                };
                params.push(J::O(vec![("pat", pj), ("ty", tj)]));
            }
            let ret = cx.ty(sig.output());
            let bj = cx.expr(tr, def, body.value, None);
            let mut o = vec![
                ("path", s(cx.path(did))),
                ("name", s(tcx.item_name(did).to_string())),
                ("kind", s(format!("{:?}", dk))),
                ("vis", s(vis_str(tcx, did))),
                ("params", J::A(params)),
                ("ret", ret),
                ("body", bj),
            ];
            let spj = cx.sp(tcx.def_span(did));
            o.push(("sp", spj));
            let generics = tcx.generics_of(did);
            let mut gs: Vec<J> = vec![];
            if let Some(p) = generics.parent {
                for q in tcx.generics_of(p).own_params.iter() {
                    gs.push(s(q.name.to_string()));
                }
            }
            for q in generics.own_params.iter() {
                gs.push(s(q.name.to_string()));
            }
            o.push(("generics", J::A(gs)));
            if let Some(imp) = tcx.impl_of_assoc(did) {
                let st = tcx.type_of(imp).instantiate_identity().skip_norm_wip();
                o.push(("impl_self", s(st.to_string())));
                let stj = cx.ty(st);
                o.push(("impl_self_ty", stj));
                if let Some(trf) = tcx.impl_opt_trait_ref(imp) {
                    let trf = trf.instantiate_identity().skip_norm_wip();
                    o.push(("impl_trait", s(cx.path(trf.def_id))));
                }
            }
            if let Some(trd) = tcx.trait_of_assoc(did) {
                o.push(("trait_default_of", s(cx.path(trd))));
            }
            let dep = tcx.lookup_deprecation(did).is_some();
            o.push(("deprecated", J::B(dep)));
            let m = cx.mac(tcx.def_span(did), None);
            o.push(("mac", m));

            // MIR edges
            let mut calls = vec![];
            let mut asserts = vec![];
            if tcx.is_mir_available(did) {
                let mirb = tcx.optimized_mir(did);
                for bb in mirb.basic_blocks.iter() {
                    if let Some(term) = &bb.terminator {
                        match &term.kind {
                            mir::TerminatorKind::Call { func, .. } => {
                                if let Some((cd, _)) = func.const_fn_def() {
                                    let spj = cx.sp(term.source_info.span);
                                    calls.push(J::O(vec![("def", s(cx.path(cd))), ("sp", spj)]));
                                }
                            }
                            mir::TerminatorKind::Assert { msg, .. } => {
                                let kind = match &**msg {
                                    mir::AssertKind::BoundsCheck { .. } => "bounds".to_string(),
                                    mir::AssertKind::Overflow(op, ..) => format!("overflow:{:?}", op),
                                    mir::AssertKind::OverflowNeg(..) => "overflow_neg".to_string(),
                                    mir::AssertKind::DivisionByZero(..) => "div0".to_string(),
                                    mir::AssertKind::RemainderByZero(..) => "rem0".to_string(),
                                    _ => "other".to_string(),
                                };
                                let spj = cx.sp(term.source_info.span);
                                asserts.push(J::O(vec![("kind", s(kind)), ("sp", spj)]));
                            }
                            _ => {}
                        }
                    }
                }
            }
            o.push(("mir_calls", J::A(calls)));
            o.push(("mir_asserts", J::A(asserts)));
            fns.push(J::O(o));
        }

        let unsupported: Vec<J> = cx.unsupported.iter().map(|x| s(x.clone())).collect();
        let root = J::O(vec![
            ("crate", s(crate_name.clone())),
            ("config", s(cfg.clone())),
            ("n_body_owners", J::I(n_owners as i64)),
            ("n_closures", J::I(n_closures as i64)),
            ("types", J::A(std::mem::take(&mut cx.types))),
            ("structs", J::A(structs)),
            ("enums", J::A(enums)),
            ("traits", J::A(traits)),
            ("impls", J::A(impls)),
            ("fns", J::A(fns)),
            ("unsupported", J::A(unsupported)),
        ]);
        let mut out = String::new();
        root.write(&mut out);
        let path = format!("{}/{}.{}.json", out_dir, crate_name, cfg);
        std::fs::write(&path, out).expect("ohx: cannot write facts");
        Compilation::Continue
    }
}

fn main() {
    let mut args: Vec<String> = std::env::args().collect();
    // RUSTC_WORKSPACE_WRAPPER: argv[1] is the real rustc path; drop it.
    if args.len() > 1 && (args[1].ends_with("rustc") || args[1].contains("/rustc")) {
        args.remove(1);
    }
    let mut cb = Export;
    rustc_driver::run_compiler(&args, &mut cb);
}
