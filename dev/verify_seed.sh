#!/bin/bash
# usage: verify_seed.sh <worktree> <seed-id> <property>
# Confirms: with the change the pinned suite passes and the demo fails; without it the demo passes.
# On success stores /verif/seeded/<seed-id>/{patch.diff,seed_demo.rs,meta.json}.
set -u
WT="$1"; ID="$2"; PROP="$3"
cd "$WT" || exit 2
[ -f _seed/patch.diff ] || { echo "no patch"; exit 2; }
git diff -- src > /tmp/verify-$ID.diff
[ -s /tmp/verify-$ID.diff ] || { echo "worktree has no change applied"; exit 2; }
export CARGO_NET_OFFLINE=true
echo "== with change: existing suite"
cargo test --offline --no-fail-fast --lib --tests 2>&1 | grep -E "^test result|Running|FAILED|panicked" | grep -v seed_demo | head -20 > /tmp/verify-$ID.with.txt
WITH_OK=1
# run all test targets except the demo
for t in $(ls tests/*.rs | xargs -n1 basename | sed 's/\.rs$//' | grep -v seed_demo); do
  cargo test --offline --test $t >/tmp/verify-$ID.t.log 2>&1 || { WITH_OK=0; echo "existing test target $t FAILS with the change"; tail -5 /tmp/verify-$ID.t.log; }
done
cargo test --offline --lib >/tmp/verify-$ID.t.log 2>&1 || { WITH_OK=0; echo "lib unit tests FAIL with the change"; }
cargo test --offline --doc >/tmp/verify-$ID.t.log 2>&1 || { WITH_OK=0; echo "doctests FAIL with the change"; }
echo "== with change: demo"
cargo test --offline --test seed_demo >/tmp/verify-$ID.demo1.log 2>&1; D1=$?
echo "demo exit with change: $D1 (expected non-zero)"
echo "== without change: demo"
git checkout -q -- src     # NOTE: never `git stash` here: the stash is shared between worktrees
cargo test --offline --test seed_demo >/tmp/verify-$ID.demo2.log 2>&1; D2=$?
git apply /tmp/verify-$ID.diff
echo "demo exit without change: $D2 (expected 0)"
if [ $WITH_OK -eq 1 ] && [ $D1 -ne 0 ] && [ $D2 -eq 0 ]; then
  mkdir -p /verif/seeded/$ID
  cp /tmp/verify-$ID.diff /verif/seeded/$ID/patch.diff
  cp tests/seed_demo.rs /verif/seeded/$ID/seed_demo.rs
  cp _seed/notes.md /verif/seeded/$ID/notes.md 2>/dev/null
  echo "CONFIRMED $ID"
else
  echo "NOT CONFIRMED $ID"; exit 1
fi
