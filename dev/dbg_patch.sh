#!/bin/sh
# development aid: apply a patch to a scratch copy of /repo, export its facts to /root/scratch/dbg-facts and run
# shapecheck on the named entries.   usage: dbg_patch.sh <patch> [entry-path ...]
set -e
P=$(readlink -f "$1"); shift
W=/root/scratch/dbg-repo; F=/root/scratch/dbg-facts
rm -rf $W $F; mkdir -p $F
rsync -a --exclude target --exclude .git /repo/ $W/
(cd $W && patch -p1 -s < "$P")
/verif/bin/export_facts.sh $W $F default >/dev/null 2>&1
cd /verif/ohsa && python3 shapecheck.py $F/open_hypergraphs.default.json "$@"
