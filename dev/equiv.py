#!/usr/bin/env python3
"""Development aid (robustness, "never raise an alarm on code where the property holds"): apply behaviour-preserving
refactorings to scratch copies of /repo and run every registered check there; any VIOLATION or ANALYSIS-ERROR is a
false alarm of the machinery.  Refactorings come from /verif/dev/equiv/*.diff (patches) and from TABLE below
(FILE, OLD, NEW one-site textual edits).  usage: equiv.py [name-filter...]"""
import glob
import os
import shutil
import subprocess
import sys
import tempfile

VERIF = os.path.dirname(os.path.dirname(os.path.abspath(__file__)))
PROPS = "C01 C02 C04 C05 C06 C07 C08 C09 C10 C11 C12 C13 C14 C15 C16 C17 C18 C19 C20".split()

TABLE = {
    "ffnew-is-some-and": ("src/finite_function/arrow.rs",
                          "if let Some(true) = table.max().map(|m| m >= target) {",
                          "if table.max().is_some_and(|m| m >= target) {"),
    "ffnew-nested-if": ("src/finite_function/arrow.rs",
                        "if let Some(true) = table.max().map(|m| m >= target) {\n            return None;\n        }",
                        "if let Some(m) = table.max() {\n            if m >= target {\n                return None;\n            }\n        }"),
    "kahn-hoist-len": ("src/strict/graph.rs",
                       "    let mut order: K::Type<K::I> = K::Type::<K::I>::fill(K::I::zero(), adjacency.len());",
                       "    let n = adjacency.len();\n    let mut order: K::Type<K::I> = K::Type::<K::I>::fill(K::I::zero(), n.clone());"),
    "kahn-loop-break": ("src/strict/graph.rs",
                        "    while !frontier.is_empty() && depth <= adjacency.len() {",
                        "    loop {\n        if frontier.is_empty() || depth > adjacency.len() {\n            break;\n        }"),
    "kahn-one-frontier-assign": [("src/strict/graph.rs",
                                  "        frontier = {\n            // *indices* i of reachable_ix such that indegree[reachable_ix[i]] == 0",
                                  "        let candidates = {\n            // *indices* i of reachable_ix such that indegree[reachable_ix[i]] == 0"),
                                 ("src/strict/graph.rs",
                                  "            &frontier,\n            &unvisited.as_ref().gather(frontier.get_range(..)),",
                                  "            &candidates,\n            &unvisited.as_ref().gather(candidates.get_range(..)),")],
    "delete-edges-retain": ("src/lax/hypergraph.rs",
                            """        let mut edges = Vec::with_capacity(edge_count - remove_count);
        let mut adjacency = Vec::with_capacity(edge_count - remove_count);
        for (i, (edge, adj)) in self
            .edges
            .drain(..)
            .zip(self.adjacency.drain(..))
            .enumerate()
        {
            if !remove[i] {
                edges.push(edge);
                adjacency.push(adj);
            }
        }

        self.edges = edges;
        self.adjacency = adjacency;""",
                            """        let _ = remove_count;
        let mut i = 0;
        self.edges.retain(|_| {
            let keep = !remove[i];
            i += 1;
            keep
        });
        let mut j = 0;
        self.adjacency.retain(|_| {
            let keep = !remove[j];
            j += 1;
            keep
        });"""),
    "delete-edges-no-early-return": ("src/lax/hypergraph.rs",
                                     "        if edge_ids.is_empty() {\n            return;\n        }\n\n        let mut remove = vec![false; edge_count];",
                                     "        let mut remove = vec![false; edge_count];"),
    "unwrap-to-expect": ("src/strict/open_hypergraph/arrow.rs",
                         ".coequalize_vertices(&q).unwrap();", ".coequalize_vertices(&q).expect(\"coequalizer preserves labels\");"),
    "vec-bincount-for-each": ("src/array/vec/vec_array.rs",
                              "        for &idx in self.iter() {\n            counts[idx] += 1;\n        }",
                              "        self.iter().for_each(|&idx| counts[idx] += 1);"),
    "vec-zero-filter-chain": ("src/array/vec/vec_array.rs",
                              """        let mut zero_indices = Vec::with_capacity(self.len());
        for (i, &val) in self.iter().enumerate() {
            if val == 0 {
                zero_indices.push(i);
            }
        }
        VecArray(zero_indices)""",
                              """        VecArray(
            self.iter()
                .enumerate()
                .filter(|(_, &val)| val == 0)
                .map(|(i, _)| i)
                .collect(),
        )"""),
    "vec-arange-collect": ("src/array/vec/vec_array.rs",
                           """        let n = stop - start;
        let mut v = Vec::with_capacity(n);
        for i in 0..n {
            v.push(start + i);
        }
        VecArray(v)""",
                           """        VecArray((*start..*stop).collect())"""),
    "vec-gather-loop": ("src/array/vec/vec_array.rs",
                        "        VecArray(idx.iter().map(|i| self.0[*i].clone()).collect())",
                        "        let mut out = Vec::with_capacity(idx.len());\n        for &i in idx {\n            out.push(self.0[i].clone());\n        }\n        VecArray(out)"),
    "vec-scatter-assign-index-loop": ("src/array/vec/vec_array.rs",
                                      "        for (i, x) in ixs.iter().zip(values.iter()) {\n            self[*i] = x.clone();\n        }",
                                      "        for k in 0..ixs.len().min(values.len()) {\n            self[ixs[k]] = values[k].clone();\n        }"),
    "vec-ssa-zip": ("src/array/vec/vec_array.rs",
                    "        for i in 0..ixs.len() {\n            self[ixs[i]] -= rhs[i];\n        }",
                    "        assert!(rhs.len() >= ixs.len());\n        for (&k, &d) in ixs.iter().zip(rhs.iter()) {\n            self[k] -= d;\n        }"),
    "vec-cumsum-index": ("src/array/vec/vec_array.rs",
                         """        let mut v = Vec::with_capacity(self.len() + 1);
        let mut a = 0;
        for x in self.iter() {
            v.push(a);
            a += x;
        }
        v.push(a); // don't forget the total sum!
        VecArray(v)""",
                         """        let mut v = Vec::with_capacity(self.len() + 1);
        v.push(0);
        let mut a = 0;
        for x in self.iter() {
            a += x;
            v.push(a);
        }
        VecArray(v)"""),
    "kahn-mark-on-entry": [("src/strict/graph.rs",
                            "    let mut frontier: K::Index = zero(&indegree);\n",
                            "    let mut frontier: K::Index = zero(&indegree);\n    unvisited.scatter_assign_constant(&frontier, K::I::zero());\n"),
                           ("src/strict/graph.rs",
                            "        // Mark nodes in the current frontier as visited\n        // unvisited[frontier] = 0;\n        unvisited.scatter_assign_constant(&frontier, K::I::zero());\n",
                            ""),
                           ("src/strict/graph.rs",
                            "        // Increment depth\n        depth = depth + K::I::one();",
                            "        unvisited.scatter_assign_constant(&frontier, K::I::zero());\n        // Increment depth\n        depth = depth + K::I::one();")],
    "compose-guard-not-eq": ("src/strict/open_hypergraph/arrow.rs",
                             "if self.target() != other.source() {",
                             "if !(self.target() == other.source()) {"),
}


def run_one_real(name, apply):
    out = []
    d = tempfile.mkdtemp(prefix="ohg-equiv-")
    try:
        subprocess.check_call(["rsync", "-a", "--exclude", "target", "--exclude", ".git", "/repo/", d + "/repo/"])
        if not apply(d + "/repo"):
            print(f"{name}: SKIPPED (does not apply)", flush=True)
            return
        env = dict(os.environ, OHSA_REPO=d + "/repo", OHSA_CACHE=d + "/cache", OHSA_OUT=d + "/out", OHSA_NO_SELFTEST="1")
        bad = []
        r = subprocess.run(["python3", os.path.join(VERIF, "ohsa", "check.py"), "ALL"], env=env, capture_output=True,
                           text=True, timeout=3600)
        cur, buf, rcs = None, {}, {}
        for l in r.stdout.splitlines():
            if l.startswith("@@rc "):
                _, p_, rc_ = l.split()
                rcs[p_] = int(rc_)
            elif l.startswith("@@ "):
                cur = l[3:].strip()
                buf[cur] = []
            elif cur is not None:
                buf[cur].append(l)
        if not rcs:
            bad.append(("ALL", r.returncode, (r.stdout + r.stderr).splitlines()[-6:]))
        for p in PROPS:
            if rcs.get(p, 0) != 0:
                lines = [l for l in buf.get(p, []) if l.startswith(("VIOLATION", "ANALYSIS-ERROR", "  "))]
                bad.append((p, rcs[p], lines[:6]))
        if not bad:
            out.append(f"{name}: quiet on all {len(PROPS)} checks")
        else:
            out.append(f"{name}: FALSE ALARM on {[(b[0], b[1]) for b in bad]}")
            seen = set()
            for p, rc, lines in bad:
                for l in lines:
                    if l.startswith("VIOLATION"):
                        continue
                    k = l.replace("property=" + p, "")[:160]
                    if k not in seen and len(seen) < 3:
                        seen.add(k)
                        out.append("      " + f"{p} {rc} " + l[:220])
    finally:
        shutil.rmtree(d, ignore_errors=True)
        if out:
            print("\n".join(out), flush=True)


def main():
    flt = sys.argv[1:]
    jobs = []

    def run_one(name, apply, _real=run_one_real):
        jobs.append((name, apply))
    for name, edits in TABLE.items():
        if flt and not any(name.startswith(x) for x in flt):
            continue
        if isinstance(edits, tuple):
            edits = [edits]

        def apply(root, edits=edits):
            for (f, old, new) in edits:
                p = os.path.join(root, f)
                s = open(p).read()
                if s.count(old) != 1:
                    return False
                open(p, "w").write(s.replace(old, new))
            return True
        run_one(name, apply)
    for patch in sorted(glob.glob(os.path.join(VERIF, "dev", "equiv", "*.diff"))):
        name = os.path.basename(patch)[:-5]
        if flt and not any(name.startswith(x) for x in flt):
            continue

        def apply(root, patch=patch):
            return subprocess.run(["patch", "-p1", "-s", "-d", root, "-i", patch], capture_output=True).returncode == 0
        run_one(name, apply)
    # three edits at a time (each analysis is itself parallel; the export of the next overlaps with it)
    from concurrent.futures import ThreadPoolExecutor
    with ThreadPoolExecutor(max_workers=int(os.environ.get("EQUIV_JOBS", "3"))) as ex:
        list(ex.map(lambda j: run_one_real(*j), jobs))


if __name__ == "__main__":
    main()
