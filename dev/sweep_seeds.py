#!/usr/bin/env python3
"""Development aid: re-apply every seeded change to a scratch copy of /repo and list which checks report it.
usage: sweep_seeds.py [--write] [seed-filter...]   (never touches /repo; three seeds at a time)"""
import glob, json, os, shutil, subprocess, sys, tempfile
from concurrent.futures import ThreadPoolExecutor
V = os.path.dirname(os.path.dirname(os.path.abspath(__file__)))
PROPS = "C01 C02 C04 C05 C06 C07 C08 C09 C10 C11 C12 C13 C14 C15 C16 C17 C18 C19 C20".split()
WRITE = "--write" in sys.argv
flt = [a for a in sys.argv[1:] if a != "--write"]
missed = []


def one(d):
    sid = os.path.basename(d)
    meta = json.load(open(os.path.join(d, "meta.json")))
    t = tempfile.mkdtemp(prefix="ohg-sweep-")
    try:
        subprocess.check_call(["rsync", "-a", "--exclude", "target", "--exclude", ".git", "/repo/", t + "/repo/"])
        if subprocess.run(["patch", "-p1", "-s", "-d", t + "/repo", "-i", os.path.join(d, "patch.diff")], capture_output=True).returncode:
            print(sid, "patch does not apply", flush=True)
            return
        env = dict(os.environ, OHSA_REPO=t + "/repo", OHSA_CACHE=t + "/cache", OHSA_OUT=t + "/out", OHSA_NO_SELFTEST="1")
        hit, und = [], []
        r = subprocess.run(["python3", os.path.join(V, "ohsa", "check.py"), "ALL"], env=env, capture_output=True, text=True, timeout=3600)
        rcs = {}
        for l in r.stdout.splitlines():
            if l.startswith("@@rc "):
                _, p_, rc_ = l.split()
                rcs[p_] = int(rc_)
        if not rcs:
            print(sid, "check failed to run:", (r.stdout + r.stderr)[-300:], flush=True)
            return
        for p in PROPS:
            if rcs.get(p) == 1:
                hit.append(p)
            elif rcs.get(p, 0) != 0:
                und.append(p)
        own = meta["property"] in hit
        print(f"{sid}: VIOLATION in {hit}" + (f"  not-decided in {und}" if und else "") + ("" if own else f"   (own property {meta['property']} silent)"), flush=True)
        if not hit:
            missed.append(sid)
        if WRITE:
            meta["reported_by"] = hit
            json.dump(meta, open(os.path.join(d, "meta.json"), "w"), indent=1)
    finally:
        shutil.rmtree(t, ignore_errors=True)


dirs = [d for d in sorted(glob.glob(os.path.join(V, "seeded", "*")))
        if not flt or any(x in os.path.basename(d) for x in flt)]
with ThreadPoolExecutor(max_workers=int(os.environ.get("SWEEP_JOBS", "3"))) as ex:
    list(ex.map(one, dirs))
print("MISSED:", sorted(missed))
