#!/usr/bin/env python3
"""Development aid: apply one textual edit to a scratch copy of /repo, export facts, run shapecheck
on selected entries and print the failed obligations.  usage: mutant.py FILE OLD NEW [entry-filter...]"""
import os, shutil, subprocess, sys, tempfile
file, old, new = sys.argv[1:4]
filters = sys.argv[4:]
d = tempfile.mkdtemp(prefix="mut-", dir="/tmp")
try:
    subprocess.check_call(["rsync", "-a", "--exclude", "target", "--exclude", ".git", "/repo/", d + "/"])
    p = os.path.join(d, file)
    s = open(p).read()
    assert s.count(old) == 1, f"pattern occurs {s.count(old)} times"
    open(p, "w").write(s.replace(old, new))
    out = d + "/facts"
    r = subprocess.run(["/verif/bin/export_facts.sh", d, out, "default"], capture_output=True, text=True)
    if r.returncode != 0:
        print("EXPORT FAILED", r.stderr[-2000:])
        sys.exit(2)
    env = dict(os.environ, OHSA_W=os.environ.get("OHSA_W", "260"))
    r = subprocess.run(["python3", "/verif/ohsa/shapecheck.py", out + "/open_hypergraphs.default.json"] + filters,
                       capture_output=True, text=True, env=env, timeout=900)
    for line in r.stdout.splitlines():
        if line.startswith(("FAIL", "ERROR", "entries", "     - ", "         goal")):
            print(line[:400])
finally:
    shutil.rmtree(d, ignore_errors=True)
