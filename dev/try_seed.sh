#!/bin/bash
# usage: try_seed.sh <patch.diff>   — applies the patch to /repo, runs every registered check, reverts.
set -u
P="$(readlink -f "$1")"
cd /repo || exit 2
git diff --quiet || { echo "repo not clean"; exit 2; }
git apply "$P" || { echo "patch does not apply"; exit 2; }
trap 'git -C /repo checkout -- . ' EXIT
cd /verif
for p in C01 C02 C04 C05 C06 C07 C08 C09 C10 C11 C12 C13 C14 C15 C16 C17 C18 C19 C20; do
  out=$(./check $p 2>&1); rc=$?
  nv=$(echo "$out" | grep -c '^VIOLATION')
  ne=$(echo "$out" | grep -c '^ANALYSIS-ERROR')
  echo "$p rc=$rc violations=$nv errors=$ne"
  if [ $rc -ne 0 ]; then echo "$out" | grep -E '^(VIOLATION|ANALYSIS-ERROR|  [A-Z]|  goal)' | cut -c1-260 | head -8; fi
done
