#!/usr/bin/env python3
"""Regenerates the seeded-change table of DESIGN.md (between the SEED-TABLE markers) from seeded/*/meta.json."""
import glob, json, os, re
V = os.path.dirname(os.path.dirname(os.path.abspath(__file__)))
rows = []
for d in sorted(glob.glob(os.path.join(V, "seeded", "*"))):
    m = json.load(open(os.path.join(d, "meta.json")))
    def esc(x):
        return str(x).replace("|", "\\|").replace("\n", " ")
    rep = m.get("reported_by")
    rep_txt = ("**none**" if rep == [] else ", ".join(rep)) if rep is not None else "?"
    rows.append(f"| {m['seed']} | {m['property']} | {esc(m['needs_to_manifest'])} | {rep_txt} | {esc('; '.join(m.get('caught_by', [])))} {esc(m.get('history', ''))} |")
table = "| seed | given property | needs, to manifest | checks that report it (sweep) | which obligation / history |\n|---|---|---|---|---|\n" + "\n".join(rows)
p = os.path.join(V, "DESIGN.md")
s = open(p).read()
b, e = "<!-- SEED-TABLE-BEGIN -->", "<!-- SEED-TABLE-END -->"
if b in s:
    s = s[:s.index(b) + len(b)] + "\n" + table + "\n" + s[s.index(e):]
    open(p, "w").write(s)
    print("table updated:", len(rows), "rows")
else:
    print(table)
