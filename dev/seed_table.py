#!/usr/bin/env python3
"""Regenerates the seeded-change table of DESIGN.md (between the SEED-TABLE markers) from seeded/*/meta.json."""
import glob, json, os, re
V = os.path.dirname(os.path.dirname(os.path.abspath(__file__)))
rows = []
for d in sorted(glob.glob(os.path.join(V, "seeded", "*"))):
    m = json.load(open(os.path.join(d, "meta.json")))
    def esc(x):
        return str(x).replace("|", "\\|").replace("\n", " ")
    rows.append(f"| {m['seed']} | {m['property']} | {esc(m['needs_to_manifest'])} | {esc('; '.join(m.get('caught_by', [])))} | {esc(m.get('history', ''))} |")
table = "| seed | given property | needs, to manifest | reported by (property: obligation) | history |\n|---|---|---|---|---|\n" + "\n".join(rows)
p = os.path.join(V, "DESIGN.md")
s = open(p).read()
b, e = "<!-- SEED-TABLE-BEGIN -->", "<!-- SEED-TABLE-END -->"
if b in s:
    s = s[:s.index(b) + len(b)] + "\n" + table + "\n" + s[s.index(e):]
    open(p, "w").write(s)
    print("table updated:", len(rows), "rows")
else:
    print(table)
